//! Helpers shared by the interpreter engines: booting a party, observing it, rendering results.
use crate::json::Json;
use crate::rng::{Fnv, Rng};
use xeh::prelude::*;
use xeh::state::verif::VerifDump;

pub fn hex_encode(b: &[u8]) -> String {
    let mut s = String::with_capacity(b.len() * 2);
    for x in b {
        s.push_str(&format!("{:02x}", x));
    }
    s
}

pub fn hex_decode(s: &str) -> Result<Vec<u8>, String> {
    if s.len() % 2 != 0 {
        return Err("odd hex length".into());
    }
    let mut out = Vec::with_capacity(s.len() / 2);
    for i in (0..s.len()).step_by(2) {
        out.push(u8::from_str_radix(&s[i..i + 2], 16).map_err(|e| e.to_string())?);
    }
    Ok(out)
}

pub fn random_bytes(rng: &mut Rng, n: usize) -> Vec<u8> {
    let style = rng.below(4);
    (0..n)
        .map(|i| match style {
            0 => rng.below(256) as u8,
            1 => 0xff,
            2 => (i as u8).wrapping_mul(17).wrapping_add(1),
            _ => {
                if rng.chance(1, 5) {
                    0
                } else {
                    rng.below(256) as u8
                }
            }
        })
        .collect()
}

#[derive(Clone, Debug, PartialEq)]
pub struct BootCfg {
    pub recording: bool,
    pub intercept_emit: bool,
    pub input: Vec<u8>,
    pub d2: bool,
}

impl BootCfg {
    pub fn to_json(&self) -> Json {
        crate::jobj! {
            "recording" => self.recording,
            "intercept_emit" => self.intercept_emit,
            "input" => hex_encode(&self.input),
            "d2" => self.d2
        }
    }
    pub fn from_json(j: &Json) -> Result<BootCfg, String> {
        Ok(BootCfg {
            recording: j.f_bool("recording")?,
            intercept_emit: j.f_bool("intercept_emit")?,
            input: hex_decode(&j.f_str("input")?)?,
            d2: j.f_bool("d2").unwrap_or(false),
        })
    }
}

/// A fresh party: real `State::boot()`, stdout captured (the existing infallible seam).
pub fn boot(cfg: &BootCfg) -> Xstate {
    let mut xs = Xstate::boot().expect("boot");
    if cfg.d2 {
        xeh::d2_plugin::load(&mut xs).expect("d2");
    }
    xs.intercept_stdout(true);
    if cfg.intercept_emit {
        xs.intercept_output(true).expect("intercept_output");
    }
    if !cfg.input.is_empty() {
        xs.set_binary_input(Xbitstr::from(cfg.input.clone())).expect("set_binary_input");
    }
    if cfg.recording {
        xs.set_recording_enabled(true);
    }
    xs
}

/// address-free, content-complete rendering of a call result
pub fn render_result(r: &Xresult) -> String {
    match r {
        Ok(()) => "Ok".to_string(),
        Err(e) => format!("Err({})", render_err(e)),
    }
}

pub fn render_err(e: &Xerr) -> String {
    use xeh::state::verif::verif_render_cell as rc;
    match e {
        Xerr::TypeErrorMsg { val, msg } => format!("TypeErrorMsg({},{})", rc(val), msg),
        Xerr::TypeNotSupported { val } => format!("TypeNotSupported({})", rc(val)),
        Xerr::AssertEqFailed { a, b } => format!("AssertEqFailed({},{})", rc(a), rc(b)),
        Xerr::UserError(c) => format!("UserError({})", rc(c)),
        other => format!("{:?}", other),
    }
}

/// short class of an error (its variant name)
pub fn err_kind(e: &Xerr) -> String {
    let s = format!("{:?}", e);
    s.split(|c: char| !c.is_alphanumeric()).next().unwrap_or("").to_string()
}

/// What a host can observe about a party without stepping it.
#[derive(Clone, Debug, PartialEq)]
pub struct Obs {
    pub stack: Vec<String>,
    pub vars: Vec<(String, String)>,
    pub heap: Vec<String>,
    pub out: String,
}

pub fn observe(xs: &mut Xstate) -> Obs {
    let d = xs.verif_dump();
    Obs { stack: d.data, vars: xs.verif_vars(), heap: d.heap, out: xs.read_stdout().unwrap_or_default() }
}

impl Obs {
    pub fn hash(&self) -> u64 {
        let mut f = Fnv::new();
        for s in &self.stack {
            f.str(s);
        }
        f.str("#");
        for (n, v) in &self.vars {
            f.str(n);
            f.str(v);
        }
        f.str("#");
        for s in &self.heap {
            f.str(s);
        }
        f.str(&self.out);
        f.get()
    }
    /// first difference, for violation details
    pub fn diff(&self, other: &Obs) -> Option<String> {
        if self.stack != other.stack {
            return Some(format!("stack {:?} vs {:?}", self.stack, other.stack));
        }
        if self.vars != other.vars {
            for (a, b) in self.vars.iter().zip(other.vars.iter()) {
                if a != b {
                    return Some(format!("variable {:?} vs {:?}", a, b));
                }
            }
            return Some(format!("variable count {} vs {}", self.vars.len(), other.vars.len()));
        }
        if self.heap != other.heap {
            for (i, (a, b)) in self.heap.iter().zip(other.heap.iter()).enumerate() {
                if a != b {
                    return Some(format!("heap[{}] {} vs {}", i, a, b));
                }
            }
            return Some(format!("heap length {} vs {}", self.heap.len(), other.heap.len()));
        }
        if self.out != other.out {
            return Some(format!("output {:?} vs {:?}", self.out, other.out));
        }
        None
    }
}

pub fn dump_hash(d: &VerifDump) -> u64 {
    let mut f = Fnv::new();
    f.u64(d.ip as u64);
    f.str(d.mode);
    f.u64(d.hidden as u64);
    for s in &d.data {
        f.str(s);
    }
    f.str("#");
    for s in &d.frames {
        f.str(s);
    }
    f.str("#");
    for s in &d.loops {
        f.str(s);
    }
    f.str("#");
    for s in &d.special {
        f.str(s);
    }
    f.str("#");
    for s in &d.heap {
        f.str(s);
    }
    f.get()
}

pub fn strs(v: &[String]) -> Json {
    Json::Arr(v.iter().map(|s| Json::Str(s.clone())).collect())
}

pub fn json_strs(j: &Json, key: &str) -> Result<Vec<String>, String> {
    let a = j.f_arr(key)?;
    let mut out = Vec::new();
    for x in a {
        out.push(x.str().ok_or_else(|| format!("non-string in {}", key))?.to_string());
    }
    Ok(out)
}

/// Is this the error a resource limit raises? Decided loosely on purpose (the word "limit" plus the
/// resource's name), so that a rewording of the message does not change what the harness does; the
/// properties say that the operation fails, not with which text.
pub fn is_limit_msg(m: &str, kind: Option<&str>) -> bool {
    let l = m.to_ascii_lowercase();
    if !l.contains("limit") {
        return false;
    }
    match kind {
        None => true,
        Some("insn") => l.contains("insn") || l.contains("instruction"),
        Some(k) => l.contains(k),
    }
}

pub fn is_limit_err(r: &Xresult, kind: Option<&str>) -> bool {
    matches!(r, Err(Xerr::ErrorMsg(m)) if is_limit_msg(m, kind))
}
