//! Grammar-directed generator of xeh source text with an abstract type stack, so that most
//! programs run deep instead of dying on the first word. Shared by all interpreter engines;
//! every engine enables a subset of the features (swarm testing).
use crate::rng::Rng;

#[derive(Clone, Copy, Debug, PartialEq)]
pub enum Ty {
    Int,
    Real,
    Flag,
    Str,
    Vec,
    Map,
    Bits,
    Nil,
    Any,
}

#[derive(Clone, Debug)]
pub struct Features {
    pub defs: bool,
    pub recursion: bool,
    pub vars: bool,
    pub loops: bool,
    pub foreach: bool,
    pub case: bool,
    pub meta: bool,
    pub consts: bool,
    pub input: bool,
    pub bits: bool,
    pub emit: bool,
    pub print: bool,
    pub vecs: bool,
    pub maps: bool,
    pub tags: bool,
    pub late: bool,
    pub lets: bool,
    pub locals: bool,
    pub reals: bool,
    pub strings: bool,
    /// per-mille probability that a statement is a deliberately failing word
    pub errors: usize,
    pub redefine: bool,
    /// the rest of the deterministic dictionary: predicates, logic, conversions, formatting tags,
    /// text codecs, every fixed-width read / pack word, find / magic / cstr, enum, `~)`, `.s`, K
    pub wide: bool,
    /// bit-strings that end up the sole owner of a run-time built buffer (slices whose parent died)
    pub orphans: bool,
    /// user-defined immediate words (engines opt in; C10 lists their build-time effects as a known finding)
    pub immediates: bool,
    /// relative weight of tag operations (2 by default)
    pub tag_weight: u32,
}

impl Features {
    pub fn all() -> Features {
        Features {
            defs: true,
            recursion: true,
            vars: true,
            loops: true,
            foreach: true,
            case: true,
            meta: true,
            consts: true,
            input: true,
            bits: true,
            emit: true,
            print: true,
            vecs: true,
            maps: true,
            tags: true,
            late: true,
            lets: true,
            locals: true,
            reals: true,
            strings: true,
            errors: 15,
            redefine: true,
            wide: true,
            orphans: true,
            immediates: false,
            tag_weight: 2,
        }
    }
    /// swarm: switch a random subset of feature families off
    pub fn swarm(rng: &mut Rng) -> Features {
        let mut f = Features::all();
        let mut off = |rng: &mut Rng| rng.chance(1, 4);
        f.defs = !off(rng);
        f.recursion = !off(rng);
        f.vars = !off(rng);
        f.loops = !off(rng);
        f.foreach = !off(rng);
        f.case = !off(rng);
        f.meta = !off(rng);
        f.consts = !off(rng);
        f.input = !off(rng);
        f.bits = !off(rng);
        f.emit = !off(rng);
        f.print = !off(rng);
        f.vecs = !off(rng);
        f.maps = !off(rng);
        f.tags = !off(rng);
        f.late = !off(rng);
        f.lets = !off(rng);
        f.locals = !off(rng);
        f.reals = !off(rng);
        f.strings = !off(rng);
        f.redefine = !off(rng);
        f.wide = !off(rng);
        f.orphans = !off(rng);
        f.errors = *rng.pick(&[0, 0, 5, 15, 40]);
        f
    }
}

#[derive(Clone, Debug)]
pub struct VarInfo {
    pub name: String,
    pub ty: Ty,
}

#[derive(Clone, Debug)]
pub struct WordInfo {
    pub name: String,
    pub arity: usize,
    /// the word is only declared with `late` so far
    pub pending: bool,
}

/// Names known to exist in the interpreter the source will be submitted to.
#[derive(Clone, Debug, Default)]
pub struct Env {
    pub vars: Vec<VarInfo>,
    pub words: Vec<WordInfo>,
    pub consts: Vec<String>,
    pub counter: usize,
    /// (late-declared word, a word that calls it): both defined
    pub late_pairs: Vec<(String, String)>,
}

pub struct Gen<'a> {
    pub rng: &'a mut Rng,
    pub f: Features,
    pub env: Env,
    pub prefix: String,
    out: Vec<String>,
    prologue: Vec<String>,
    stack: Vec<Ty>,
    floor: usize,
    depth: usize,
    budget: isize,
    in_def: bool,
    locals: Vec<(String, Ty)>,
    loop_depth: usize,
    in_meta: bool,
    /// names of loop counter variables allocated in the prologue
    counters: Vec<String>,
}

const SMALL_INTS: &[i64] = &[0, 1, 2, 3, 4, 5, 7, 8, 10, 16, 100, -1, -2, -7];

impl<'a> Gen<'a> {
    pub fn new(rng: &'a mut Rng, f: Features, env: Env, prefix: &str) -> Gen<'a> {
        Gen {
            rng,
            f,
            env,
            prefix: prefix.to_string(),
            out: Vec::new(),
            prologue: Vec::new(),
            stack: Vec::new(),
            floor: 0,
            depth: 0,
            budget: 0,
            in_def: false,
            locals: Vec::new(),
            loop_depth: 0,
            in_meta: false,
            counters: Vec::new(),
        }
    }

    /// Generate one source of roughly `tokens` tokens. `stack_in` is the abstract data stack the
    /// source starts from (the interpreter is idle, so usually what earlier sources left).
    pub fn source(&mut self, tokens: usize, stack_in: &[Ty]) -> (String, Vec<Ty>) {
        self.out.clear();
        self.prologue.clear();
        self.stack = stack_in.to_vec();
        self.floor = 0;
        self.depth = 0;
        self.budget = tokens as isize;
        while self.budget > 0 {
            self.statement();
        }
        let mut toks = std::mem::take(&mut self.prologue);
        toks.extend(std::mem::take(&mut self.out));
        (join_tokens(self.rng, &toks), self.stack.clone())
    }

    fn emit(&mut self, t: &str) {
        self.out.push(t.to_string());
        self.budget -= 1;
    }

    fn emits(&mut self, ts: &[&str]) {
        for t in ts {
            self.emit(t);
        }
    }

    fn fresh(&mut self, kind: &str) -> String {
        self.env.counter += 1;
        format!("{}{}{}", self.prefix, kind, self.env.counter)
    }

    fn avail(&self) -> usize {
        self.stack.len() - self.floor
    }

    fn top(&self, n: usize) -> Option<Ty> {
        if self.avail() > n {
            Some(self.stack[self.stack.len() - 1 - n])
        } else {
            None
        }
    }

    fn pop(&mut self) -> Ty {
        self.stack.pop().unwrap_or(Ty::Any)
    }

    fn push(&mut self, t: Ty) {
        self.stack.push(t);
    }

    // ------------------------------------------------------------ literals

    fn int_lit(&mut self) -> String {
        match self.rng.below(40) {
            0 => "0x7fffffffffffffff".to_string(),
            1 => "-9223372036854775808".to_string(),
            2 => "170141183460469231731687303715884105727".to_string(),
            3 => "0b1011".to_string(),
            4 => "0xff".to_string(),
            5 => "1_000".to_string(),
            _ => format!("{}", self.rng.pick(SMALL_INTS)),
        }
    }

    fn push_lit(&mut self, t: Ty) {
        match t {
            Ty::Int | Ty::Any => {
                let s = self.int_lit();
                self.emit(&s);
                self.push(Ty::Int);
            }
            Ty::Real => {
                let s = *self.rng.pick(&["0.5", "1.0", "-2.25", "3.125", "100.0", "0.0"]);
                self.emit(s);
                self.push(Ty::Real);
            }
            Ty::Flag => {
                let s = *self.rng.pick(&["true", "false"]);
                self.emit(s);
                self.push(Ty::Flag);
            }
            Ty::Str => {
                let s = *self.rng.pick(&["\"a\"", "\"bc\"", "\"\"", "\"xeh\"", "\"q\\n\"", "\"Zz9\""]);
                self.emit(s);
                self.push(Ty::Str);
            }
            Ty::Nil => {
                self.emit("nil");
                self.push(Ty::Nil);
            }
            Ty::Bits if self.f.orphans && self.f.bits && self.rng.chance(1, 5) => {
                self.computed_bits();
            }
            Ty::Bits => {
                let s = *self.rng.pick(&["|ff|", "|12 34|", "|x.x|", "|0|", "||", "|a5 c|", "|xxxxxxx|", "|00 ff 7|"]);
                self.emit(s);
                self.push(Ty::Bits);
            }
            Ty::Vec => {
                self.emit("[");
                let n = self.rng.below(4);
                for _ in 0..n {
                    let s = self.int_lit();
                    self.emit(&s);
                }
                self.emit("]");
                self.push(Ty::Vec);
            }
            Ty::Map => {
                self.emit("{");
                let n = self.rng.below(3);
                for i in 0..n {
                    let s = self.int_lit();
                    self.emit(&s);
                    let k = format!("\"k{}\"", i);
                    self.emit(&k);
                }
                self.emit("}");
                self.push(Ty::Map);
            }
        }
    }

    fn some_ty(&mut self) -> Ty {
        let mut c = vec![Ty::Int, Ty::Int, Ty::Int, Ty::Flag, Ty::Nil];
        if self.f.reals {
            c.push(Ty::Real);
        }
        if self.f.strings {
            c.push(Ty::Str);
        }
        if self.f.vecs {
            c.push(Ty::Vec);
        }
        if self.f.maps {
            c.push(Ty::Map);
        }
        if self.f.bits {
            c.push(Ty::Bits);
        }
        *self.rng.pick(&c)
    }

    /// make sure a value of type `t` is on top of the stack
    fn want(&mut self, t: Ty) {
        if self.top(0) == Some(t) {
            return;
        }
        // a variable or local of the right type, else a literal
        if self.rng.chance(1, 2) {
            if let Some(name) = self.find_readable(t) {
                self.emit(&name);
                self.push(t);
                return;
            }
        }
        if t == Ty::Int && self.loop_depth > 0 && self.rng.chance(1, 3) {
            self.emit("I");
            self.push(Ty::Int);
            return;
        }
        if t == Ty::Flag && self.rng.chance(2, 3) {
            self.want(Ty::Int);
            let s = self.int_lit();
            self.emit(&s);
            let op = *self.rng.pick(&["<", ">", "==", "<>", "<=", ">="]);
            self.emit(op);
            self.pop();
            self.push(Ty::Flag);
            return;
        }
        self.push_lit(t);
    }

    fn find_readable(&mut self, t: Ty) -> Option<String> {
        let mut c: Vec<String> = Vec::new();
        if self.in_def {
            for (n, ty) in self.locals.iter() {
                if *ty == t {
                    c.push(n.clone());
                }
            }
        }
        if !self.in_meta {
            for v in self.env.vars.iter() {
                if v.ty == t {
                    c.push(v.name.clone());
                }
            }
        }
        if c.is_empty() {
            None
        } else {
            Some(self.rng.pick(&c).clone())
        }
    }

    // ------------------------------------------------------------ blocks

    /// statements with no net effect on the abstract stack below `floor`
    fn block(&mut self, max_stmts: usize) {
        let saved_floor = self.floor;
        let base = self.stack.len();
        self.floor = base;
        self.depth += 1;
        let n = self.rng.below(max_stmts + 1);
        for _ in 0..n {
            if self.budget <= 0 {
                break;
            }
            self.statement();
        }
        while self.stack.len() > base {
            self.emit("drop");
            self.pop();
        }
        self.depth -= 1;
        self.floor = saved_floor;
    }

    /// statements that leave exactly one Int above the current stack
    fn block_one_int(&mut self, max_stmts: usize) {
        let saved_floor = self.floor;
        let base = self.stack.len();
        self.floor = base;
        self.depth += 1;
        let n = self.rng.below(max_stmts + 1);
        for _ in 0..n {
            if self.budget <= 0 {
                break;
            }
            self.statement();
        }
        while self.stack.len() > base + 1 {
            self.emit("drop");
            self.pop();
        }
        if self.stack.len() == base + 1 && self.stack[base] != Ty::Int {
            self.emit("drop");
            self.pop();
        }
        if self.stack.len() == base {
            self.want(Ty::Int);
        }
        self.depth -= 1;
        self.floor = saved_floor;
    }

    // ------------------------------------------------------------ statements

    pub fn statement(&mut self) {
        if self.f.errors > 0 && self.rng.below(1000) < self.f.errors {
            return self.failing();
        }
        if self.in_meta && self.avail() <= 1 && self.rng.chance(1, 25) {
            // reach below what the block itself pushed: the items under a meta block are hidden from
            // it, so this fails (and rejects the source) whatever lies underneath
            let t = *self.rng.pick(&["drop", "swap", "rot", "over", "dup", "1 2 collect", "2 collect", "unbox", "depth 1 + collect"]);
            for w in t.split(' ') {
                self.emit(w);
            }
            return;
        }
        let nested = self.depth >= 3;
        let top_level = self.depth == 0 && !self.in_def && !self.in_meta;
        let pure = self.in_meta;
        let w: [u32; 31] = [
            10,                                                           // 0 literal
            8,                                                            // 1 stack op
            10,                                                           // 2 arithmetic
            if nested { 0 } else { 5 },                                   // 3 if
            if nested || !self.f.loops { 0 } else { 4 },                  // 4 do loop
            if nested || !self.f.loops || pure { 0 } else { 3 },          // 5 begin loops
            if nested || !self.f.case { 0 } else { 2 },                   // 6 case
            if top_level && self.f.defs { 4 } else { 0 },                 // 7 definition
            if self.f.defs { if pure { 1 } else { 4 } } else { 0 },       // 8 call (at build time too)
            if top_level && self.f.vars { 4 } else { 0 },                 // 9 var definition
            if self.f.vars && !pure { 5 } else { 0 },                     // 10 var load/store
            if self.f.vecs { 5 } else { 0 },                              // 11 vector ops
            if self.f.maps { 3 } else { 0 },                              // 12 map ops
            if self.f.tags { self.f.tag_weight } else { 0 },              // 13 tag ops
            if self.f.meta && !pure && !nested { 3 } else { 0 },          // 14 meta block
            if self.f.input && !pure { 5 } else { 0 },                    // 15 input reads
            if self.f.bits { 4 } else { 0 },                              // 16 bit-string ops
            if self.f.print && !pure { 3 } else { 0 },                    // 17 print
            if top_level && self.f.late && self.f.defs { 1 } else { 0 },  // 18 late
            if self.f.lets && !nested && !pure && (top_level || self.in_def) { 2 } else { 0 }, // 19 let
            if self.f.foreach && !nested && self.f.vecs { 2 } else { 0 }, // 20 foreach
            if self.f.strings { 2 } else { 0 },                           // 21 string ops
            if self.f.wide { 3 } else { 0 },                              // 22 logic / predicates / conversions
            if self.f.wide && self.f.tags { 2 } else { 0 },               // 23 formatting tags
            if self.f.wide && self.f.bits && self.f.strings { 2 } else { 0 }, // 24 text codecs
            if self.f.wide && self.f.input && !pure { 4 } else { 0 },     // 25 every read word
            if self.f.wide && self.f.bits { 3 } else { 0 },               // 26 every pack word
            if self.f.orphans && self.f.bits && !pure { 3 } else { 0 },   // 27 orphan slices
            if self.f.immediates && top_level && self.f.defs { 2 } else { 0 }, // 28 user immediates
            if self.f.wide { 2 } else { 0 },                              // 29 enum / defined / ~) / .s / K
            if top_level && self.f.late && self.f.defs && self.f.redefine && !self.env.late_pairs.is_empty() { 3 } else { 0 }, // 30 re-bind a late word
        ];
        match self.rng.weighted(&w) {
            0 => {
                let t = self.some_ty();
                self.push_lit(t);
            }
            1 => self.stack_op(),
            2 => self.arith(),
            3 => self.if_stmt(),
            4 => self.do_loop(),
            5 => self.begin_loop(),
            6 => self.case_stmt(),
            7 => self.definition(),
            8 => self.call(),
            9 => self.var_def(),
            10 => self.var_use(),
            11 => self.vec_op(),
            12 => self.map_op(),
            13 => self.tag_op(),
            14 => self.meta_block(),
            15 => self.input_read(),
            16 => self.bits_op(),
            17 => self.print_stmt(),
            18 => self.late_stmt(),
            19 => self.let_stmt(),
            20 => self.foreach_stmt(),
            21 => self.str_op(),
            22 => self.logic_op(),
            23 => self.fmt_op(),
            24 => self.codec_op(),
            25 => self.wide_read(),
            26 => self.pack_op(),
            27 => self.orphan_slice(),
            28 => self.immediate_def(),
            30 => self.late_rebind(),
            _ => self.misc_op(),
        }
    }

    fn failing(&mut self) {
        match self.rng.below(if self.f.wide { 11 } else { 8 }) {
            10 => self.emits(&["\"insn limit reached: 7\"", "error"]),
            8 => self.emits(&["3", "exit"]),
            9 => self.emits(&["\"zz\"", "str>number"]),
            0 => self.emits(&["1", "0", "/"]),
            1 => self.emits(&["\"x\"", "1", "+"]),
            2 => self.emits(&["nil", "assert"]),
            3 => self.emits(&["5", "error"]),
            4 => self.emits(&["1", "2", "assert-eq"]),
            5 => self.emits(&["[", "]", "0", "nth"]),
            6 => self.emits(&["drop", "drop", "drop", "drop", "drop", "drop", "drop", "drop", "drop"]),
            _ => self.emits(&["0", "1", "-", "bits"]),
        }
    }

    fn stack_op(&mut self) {
        match self.rng.below(7) {
            0 if self.avail() >= 1 => {
                self.emit("dup");
                let t = self.top(0).unwrap();
                self.push(t);
            }
            1 if self.avail() >= 1 => {
                self.emit("drop");
                self.pop();
            }
            2 if self.avail() >= 2 => {
                self.emit("swap");
                let n = self.stack.len();
                self.stack.swap(n - 1, n - 2);
            }
            3 if self.avail() >= 2 => {
                self.emit("over");
                let t = self.top(1).unwrap();
                self.push(t);
            }
            4 if self.avail() >= 3 => {
                self.emit("rot");
                let n = self.stack.len();
                self.stack.swap(n - 1, n - 3);
            }
            5 => {
                self.emit("depth");
                self.push(Ty::Int);
            }
            _ => {
                let t = self.some_ty();
                self.push_lit(t);
            }
        }
    }

    fn arith(&mut self) {
        if self.f.reals && self.rng.chance(1, 6) {
            self.want(Ty::Real);
            let s = *self.rng.pick(&["0.5", "2.0", "-1.5"]);
            self.emit(s);
            let op = *self.rng.pick(&["+", "-", "*", "/", "min", "max"]);
            self.emit(op);
            return;
        }
        self.want(Ty::Int);
        match self.rng.below(10) {
            0 => {
                let op = *self.rng.pick(&["neg", "abs", "bnot", "popcnt"]);
                self.emit(op);
            }
            1 => {
                let op = *self.rng.pick(&["zero?", "positive?", "negative?"]);
                self.emit(op);
                self.pop();
                self.push(Ty::Flag);
            }
            2 => {
                let d = *self.rng.pick(&["2", "3", "7", "-2"]);
                self.emit(d);
                let op = *self.rng.pick(&["/", "rem"]);
                self.emit(op);
            }
            3 => {
                let d = *self.rng.pick(&["1", "3", "8"]);
                self.emit(d);
                let op = *self.rng.pick(&["bsl", "bsr"]);
                self.emit(op);
            }
            4 => {
                let s = self.int_lit();
                self.emit(&s);
                let op = *self.rng.pick(&["<", ">", "==", "<>", "<=", ">="]);
                self.emit(op);
                self.pop();
                self.push(Ty::Flag);
            }
            _ => {
                if self.top(1) != Some(Ty::Int) || self.rng.chance(1, 2) {
                    let s = format!("{}", self.rng.pick(SMALL_INTS));
                    self.emit(&s);
                } else {
                    self.pop();
                }
                let op = *self.rng.pick(&["+", "+", "-", "*", "min", "max", "band", "bor", "bxor"]);
                self.emit(op);
            }
        }
    }

    fn if_stmt(&mut self) {
        self.want(Ty::Flag);
        self.pop();
        self.emit("if");
        self.block(3);
        if self.rng.chance(1, 2) {
            self.emit("else");
            self.block(3);
        }
        self.emit("then");
    }

    fn do_loop(&mut self) {
        let limit = self.rng.below(5);
        let start = if self.rng.chance(1, 6) { limit } else { 0 };
        let l = format!("{}", limit);
        let s = format!("{}", start);
        self.emit(&l);
        self.emit(&s);
        self.emit("do");
        self.loop_depth += 1;
        if self.rng.chance(1, 5) {
            self.emit("I");
            let k = format!("{}", self.rng.below(4));
            self.emit(&k);
            self.emits(&["==", "if", "break", "then"]);
        }
        if self.loop_depth >= 2 && self.rng.chance(1, 3) {
            self.emits(&["J", "drop"]);
        }
        self.block(3);
        self.loop_depth -= 1;
        self.emit("loop");
    }

    fn counter(&mut self) -> String {
        // loop counters are global variables declared in the prologue of the source (a variable
        // cannot be declared inside a control structure)
        let name = self.fresh("c");
        self.prologue.push("0".into());
        self.prologue.push("var".into());
        self.prologue.push(name.clone());
        self.counters.push(name.clone());
        name
    }

    fn begin_loop(&mut self) {
        if !self.f.vars || self.in_meta {
            return self.do_loop();
        }
        let c = self.counter();
        let n = format!("{}", 1 + self.rng.below(4));
        let store = format!("{}", c);
        self.emits(&["0", "!", &store]);
        match self.rng.below(3) {
            0 => {
                // begin ... until
                self.emit("begin");
                self.block(3);
                self.emits(&[&c, "1", "+", "!", &store, &c, &n, ">=", "until"]);
            }
            1 => {
                // begin cond while body repeat
                self.emits(&["begin", &c, &n, "<", "while", &c, "1", "+", "!", &store]);
                self.block(3);
                self.emit("repeat");
            }
            _ => {
                // begin ... break ... repeat
                self.emits(&["begin", &c, "1", "+", "!", &store, &c, &n, ">=", "if", "break", "then"]);
                self.block(3);
                self.emit("repeat");
            }
        }
    }

    fn case_stmt(&mut self) {
        self.want(Ty::Int);
        self.pop();
        self.emit("case");
        let n = 1 + self.rng.below(3);
        for _ in 0..n {
            let k = format!("{}", self.rng.pick(SMALL_INTS));
            self.emit(&k);
            self.emit("of");
            self.block(2);
            self.emit("endof");
        }
        self.emit("drop");
        self.block(2);
        self.emit("endcase");
    }

    fn definition(&mut self) {
        let redefine = self.f.redefine && !self.env.words.is_empty() && self.rng.chance(1, 6);
        let pending: Vec<usize> = self.env.words.iter().enumerate().filter(|(_, w)| w.pending).map(|(i, _)| i).collect();
        let (name, arity, slot) = if !pending.is_empty() && self.rng.chance(2, 3) {
            let i = *self.rng.pick(&pending);
            (self.env.words[i].name.clone(), self.env.words[i].arity, Some(i))
        } else if redefine {
            let i = self.rng.below(self.env.words.len());
            (self.env.words[i].name.clone(), self.env.words[i].arity, Some(i))
        } else {
            (self.fresh("w"), self.rng.below(3), None)
        };
        // a definition body has its own abstract stack
        let saved_stack = std::mem::take(&mut self.stack);
        let saved_floor = self.floor;
        self.floor = 0;
        self.in_def = true;
        self.locals.clear();
        self.emit(":");
        self.emit(&name);
        let recursive = self.f.recursion && arity >= 1 && self.rng.chance(1, 4);
        for i in 0..arity {
            if self.f.locals {
                let ln = format!("p{}", i);
                self.emit("local");
                self.emit(&ln);
                self.locals.push((ln, Ty::Int));
            } else {
                self.emit("drop");
            }
        }
        if recursive && self.f.locals {
            // bounded recursion on the first parameter
            self.emits(&["p0", "0", ">", "p0", "6", "<", "and", "if", "p0", "1", "-"]);
            for _ in 1..arity {
                self.emit("1");
            }
            self.emit(&name);
            self.emits(&["1", "+", "else"]);
            self.block_one_int(3);
            self.emit("then");
        } else {
            self.depth += 1;
            if self.f.locals && self.f.loops && self.rng.chance(1, 4) {
                // a local re-initialised inside a loop
                if self.f.tags && self.rng.chance(1, 3) {
                    // ... with the same number under a different tag each time round
                    self.emits(&["7", "local", "acc", "3", "0", "do", "7", "I", "\"t\"", "insert-tag", "local", "acc", "loop"]);
                } else if self.f.wide && self.f.tags && self.rng.chance(1, 3) {
                    self.emits(&["7", "local", "acc", "2", "0", "do", "7", "^hex", "local", "acc", "acc", "drop", "7", "local", "acc", "loop"]);
                } else {
                    self.emits(&["0", "local", "acc", "3", "0", "do", "acc", "I", "+", "local", "acc", "loop"]);
                }
                self.locals.push(("acc".into(), Ty::Int));
            }
            self.depth -= 1;
            self.block_one_int(5);
        }
        self.emit(";");
        self.in_def = false;
        self.locals.clear();
        self.stack = saved_stack;
        self.floor = saved_floor;
        match slot {
            Some(i) => self.env.words[i].pending = false,
            None => self.env.words.push(WordInfo { name, arity, pending: false }),
        }
    }

    fn call(&mut self) {
        let c: Vec<usize> = self.env.words.iter().enumerate().filter(|(_, w)| !w.pending).map(|(i, _)| i).collect();
        if c.is_empty() {
            return self.arith();
        }
        let w = self.env.words[*self.rng.pick(&c)].clone();
        for _ in 0..w.arity {
            let s = format!("{}", self.rng.below(5));
            self.emit(&s);
        }
        self.emit(&w.name);
        self.push(Ty::Int);
    }

    fn var_def(&mut self) {
        let t = self.some_ty();
        self.want(t);
        self.pop();
        let name = if self.f.redefine && !self.env.vars.is_empty() && self.rng.chance(1, 8) {
            self.rng.pick(&self.env.vars).name.clone()
        } else {
            self.fresh("v")
        };
        self.emit("var");
        self.emit(&name);
        self.env.vars.retain(|v| v.name != name);
        self.env.vars.push(VarInfo { name, ty: t });
    }

    fn var_use(&mut self) {
        if self.env.vars.is_empty() {
            return self.arith();
        }
        let i = self.rng.below(self.env.vars.len());
        let v = self.env.vars[i].clone();
        if self.f.tags && self.rng.chance(1, 8) {
            // store the value the variable already holds, differing in its tags only
            self.emit(&v.name);
            let t = self.int_lit();
            self.emit(&t);
            self.emits(&["\"t\"", "insert-tag", "!"]);
            self.emit(&v.name);
        } else if self.rng.chance(1, 2) {
            self.emit(&v.name);
            self.push(v.ty);
        } else {
            // a store keeps the variable's type so that the abstract state stays valid on every path
            self.want(v.ty);
            self.pop();
            self.emit("!");
            self.emit(&v.name);
        }
    }

    fn vec_op(&mut self) {
        match self.rng.below(12) {
            0 => {
                // builder with computed elements
                self.emit("[");
                let n = self.rng.below(3);
                let base = self.stack.len();
                let saved_floor = self.floor;
                self.floor = base;
                for _ in 0..n {
                    self.want(Ty::Int);
                    if self.rng.chance(1, 3) {
                        self.arith();
                    }
                }
                self.stack.truncate(base);
                self.floor = saved_floor;
                self.emit("]");
                self.push(Ty::Vec);
            }
            1 => {
                self.want(Ty::Vec);
                self.emit("length");
                self.pop();
                self.push(Ty::Int);
            }
            2 => {
                self.want(Ty::Int);
                self.pop();
                self.want(Ty::Vec);
                self.emit("push");
            }
            3 => {
                self.want(Ty::Vec);
                let op = *self.rng.pick(&["reverse", "sort"]);
                self.emit(op);
            }
            4 => {
                self.emits(&["[", "1", "2", "3", "]"]);
                let i = *self.rng.pick(&["0", "1", "2", "-1"]);
                self.emit(i);
                self.emit("nth");
                self.push(Ty::Int);
            }
            5 => {
                self.emits(&["[", "4", "5", "]", "unbox"]);
                self.push(Ty::Int);
                self.push(Ty::Int);
            }
            6 => {
                if self.avail() >= 1 && self.rng.chance(1, 3) {
                    // takes the item below as well
                    self.emits(&["1", "2", "3", "4", "collect"]);
                    self.pop();
                } else {
                    self.emits(&["1", "2", "3", "3", "collect"]);
                }
                self.push(Ty::Vec);
            }
            7 => {
                self.want(Ty::Vec);
                let a = *self.rng.pick(&["0", "1", "-1"]);
                let b = *self.rng.pick(&["2", "5", "-1"]);
                self.emit(a);
                self.emit(b);
                self.emit("slice");
            }
            8 => {
                self.want(Ty::Vec);
                self.emit("concat");
                self.pop();
                self.push(Ty::Str);
            }
            9 => {
                self.want(Ty::Vec);
                self.emits(&["\",\"", "join"]);
                self.pop();
                self.push(Ty::Str);
            }
            10 => {
                self.want(Ty::Vec);
                self.emit("dup");
                self.emit("equal?");
                self.pop();
                self.push(Ty::Flag);
            }
            _ => {
                self.want(Ty::Vec);
                self.emit("vec?");
                self.pop();
                self.push(Ty::Flag);
            }
        }
    }

    fn map_op(&mut self) {
        self.want(Ty::Map);
        match self.rng.below(4) {
            0 => {
                let v = self.int_lit();
                self.emit(&v);
                let k = *self.rng.pick(&["\"k0\"", "\"k1\"", "\"z\"", "7"]);
                self.emit(k);
                self.emit("insert");
            }
            1 => {
                let k = *self.rng.pick(&["\"k0\"", "\"k1\"", "\"z\"", "7"]);
                self.emit(k);
                self.emit("remove");
            }
            2 => {
                let k = *self.rng.pick(&["\"k0\"", "\"k1\"", "\"z\"", "7"]);
                self.emit(k);
                self.emit("get");
                self.pop();
                self.push(Ty::Any);
            }
            _ => {
                self.emit("dup");
                self.push(Ty::Map);
            }
        }
    }

    fn tag_op(&mut self) {
        if self.avail() == 0 {
            self.push_lit(Ty::Int);
        }
        match self.rng.below(8) {
            5 | 6 => {
                // the same key again, with a tag value that is equal to the earlier one as a number
                // but decorated differently (Cell's == ignores tags and formatting flags)
                let deco = *self.rng.pick(&["7", "7 ^hex", "7 ^bin", "7 true fmt/upcase", "7 { 1 \"a\" } with-tags", "7.0", "7 \"u\" \"t\" insert-tag"]);
                for w in deco.split(' ') {
                    self.emit(w);
                }
                self.emits(&["\"t\"", "insert-tag"]);
            }
            7 => {
                self.emits(&["dup", "\"t\"", "get-tag", "tags"]);
                self.push(Ty::Any);
            }
            0 => {
                let v = self.int_lit();
                self.emit(&v);
                self.emits(&["\"t\"", "insert-tag"]);
            }
            1 => {
                self.emits(&["^{", "1", "\"a\"", "2", "\"b\"", "^}"]);
            }
            2 => {
                self.emits(&["dup", "tags"]);
                self.push(Ty::Any);
            }
            3 => {
                self.emits(&["\"t\"", "remove-tag"]);
            }
            _ => {
                self.emits(&["dup", "\"t\"", "get-tag"]);
                self.push(Ty::Any);
            }
        }
    }

    fn meta_block(&mut self) {
        let saved_stack = std::mem::take(&mut self.stack);
        let saved_floor = self.floor;
        let saved_in_def = self.in_def;
        let saved_locals = std::mem::take(&mut self.locals);
        let saved_loop = self.loop_depth;
        self.floor = 0;
        self.in_meta = true;
        self.in_def = false;
        self.loop_depth = 0;
        self.emit("#(");
        let as_const = self.f.consts && !saved_in_def && self.depth == 0 && self.rng.chance(1, 3);
        self.block_one_int(4);
        if as_const {
            let name = self.fresh("K");
            self.emit("const");
            self.emit(&name);
            self.env.consts.push(name);
        }
        self.emit("#)");
        self.in_meta = false;
        self.in_def = saved_in_def;
        self.locals = saved_locals;
        self.loop_depth = saved_loop;
        self.stack = saved_stack;
        self.floor = saved_floor;
        if !as_const {
            self.push(Ty::Int);
        } else if self.rng.chance(1, 2) {
            let name = self.env.consts.last().unwrap().clone();
            self.emit(&name);
            self.push(Ty::Int);
        }
    }

    fn input_read(&mut self) {
        match self.rng.below(12) {
            0 => {
                let w = *self.rng.pick(&["u8", "i8", "u16", "u16be", "i16le", "u32", "i32be"]);
                self.emit(w);
                self.push(Ty::Int);
            }
            1 => {
                let n = format!("{}", 1 + self.rng.below(12));
                self.emit(&n);
                self.emit("bits");
                self.push(Ty::Bits);
            }
            2 => {
                let n = format!("{}", 1 + self.rng.below(20));
                self.emit(&n);
                let w = *self.rng.pick(&["uint", "int"]);
                self.emit(w);
                self.push(Ty::Int);
            }
            3 => {
                self.emits(&["1", "bytes"]);
                self.push(Ty::Bits);
            }
            4 => {
                self.emit("remain");
                self.push(Ty::Int);
            }
            5 => {
                self.emit("offset");
                self.push(Ty::Int);
            }
            6 => {
                let w = *self.rng.pick(&["big", "little"]);
                self.emit(w);
            }
            7 => {
                let n = format!("{}", self.rng.below(64));
                self.emit(&n);
                self.emit("seek");
            }
            8 => {
                // a nested input
                self.want(Ty::Bits);
                self.pop();
                self.emit("open-bitstr");
                if self.rng.chance(2, 3) {
                    self.emits(&["remain", "drop", "close-bitstr"]);
                }
            }
            9 => {
                self.emit("close-bitstr");
            }
            10 => {
                self.emits(&["offset", "8", "+", "seek"]);
            }
            _ => {
                self.emits(&["3", "bits", "drop"]);
            }
        }
    }

    fn bits_op(&mut self) {
        match self.rng.below(10) {
            0 => {
                self.want(Ty::Bits);
                let s = *self.rng.pick(&["|f|", "|12|", "|x|", "|.x.|"]);
                self.emit(s);
                // head is popped first: `tail head bitstr-append`
                self.emits(&["swap", "bitstr-append"]);
            }
            1 => {
                self.want(Ty::Bits);
                self.emit("bitstr-not");
            }
            2 => {
                self.want(Ty::Bits);
                self.emit("bitstr-len");
                self.pop();
                self.push(Ty::Int);
            }
            3 => {
                self.want(Ty::Bits);
                self.emit("bitstr>hex");
                self.pop();
                self.push(Ty::Str);
            }
            4 => {
                self.want(Ty::Int);
                let w = *self.rng.pick(&["u8!", "u16be!", "i32le!", "u64!"]);
                self.emit(w);
                self.pop();
                self.push(Ty::Bits);
            }
            5 => {
                self.want(Ty::Int);
                let n = format!("{}", 1 + self.rng.below(40));
                self.emit(&n);
                self.emit("int!");
                self.pop();
                self.push(Ty::Bits);
            }
            6 => {
                self.emits(&["[", "1", "2", "255", "]", ">bitstr"]);
                self.push(Ty::Bits);
            }
            7 if self.f.emit && !self.in_meta => {
                self.want(Ty::Bits);
                self.emit("emit");
                self.pop();
            }
            8 => {
                self.want(Ty::Bits);
                let s = *self.rng.pick(&["|f0|", "|x|"]);
                self.emit(s);
                let op = *self.rng.pick(&["bitstr-and", "bitstr-or", "bitstr-xor"]);
                self.emit(op);
            }
            _ => {
                self.want(Ty::Bits);
                self.emit("dup");
                self.push(Ty::Bits);
            }
        }
    }

    fn print_stmt(&mut self) {
        match self.rng.below(4) {
            0 if self.avail() >= 1 => {
                self.emit("print");
                self.pop();
            }
            1 if self.avail() >= 1 => {
                self.emit("println");
                self.pop();
            }
            2 => self.emit("newline"),
            _ => {
                let s = self.int_lit();
                self.emit(&s);
                self.emit("println");
            }
        }
    }

    fn late_stmt(&mut self) {
        let name = self.fresh("w");
        self.emit("late");
        self.emit(&name);
        self.env.words.push(WordInfo { name, arity: 0, pending: true });
        if self.rng.chance(1, 2) {
            // a user of the forward word, defined before the word itself
            let user = self.fresh("w");
            let fw = self.env.words.last().unwrap().name.clone();
            self.emits(&[":", &user, &fw, "1", "+", ";"]);
            self.env.words.push(WordInfo { name: user, arity: 0, pending: true });
            // the user stays "pending" (not called) until the forward word is defined; keep it
            // simple: define the forward word right away half of the time
            if self.rng.chance(1, 2) {
                let n = format!("{}", self.rng.below(50));
                self.emits(&[":", &fw, &n, ";"]);
                let k = self.env.words.len();
                self.env.words[k - 1].pending = false;
                self.env.words[k - 2].pending = false;
                let user = self.env.words[k - 1].name.clone();
                self.env.late_pairs.push((fw.clone(), user.clone()));
                if self.rng.chance(1, 2) {
                    // the first call binds the late word
                    self.emit(&user);
                    self.push(Ty::Int);
                }
            } else {
                // the user may only be called once the forward word exists: drop it from the env
                self.env.words.pop();
            }
        }
    }

    fn let_stmt(&mut self) {
        if self.in_def {
            let a = "la".to_string();
            let b = "lb".to_string();
            self.emits(&["[", "1", "2", "]", "let", "[", &a, &b, "]"]);
            self.locals.push((a, Ty::Int));
            self.locals.push((b, Ty::Int));
        } else {
            let a = self.fresh("v");
            let b = self.fresh("v");
            match self.rng.below(3) {
                0 => self.emits(&["[", "7", "8", "]", "let", "[", &a, &b, "]"]),
                1 => self.emits(&["[", "7", "8", "9", "]", "let", "[", &a, "&", &b, "]"]),
                _ => self.emits(&["{", "7", "\"x\"", "8", "\"y\"", "}", "let", "{", "\"x\"", &a, "\"y\"", &b, "}"]),
            }
            let rest_is_vec = self.out.iter().rev().take(6).any(|t| t == "&");
            self.env.vars.push(VarInfo { name: a, ty: Ty::Int });
            self.env.vars.push(VarInfo { name: b, ty: if rest_is_vec { Ty::Vec } else { Ty::Int } });
        }
    }

    fn foreach_stmt(&mut self) {
        if self.f.maps && self.rng.chance(1, 3) {
            self.emits(&["{", "1", "\"a\"", "2", "\"b\"", "}", "foreach"]);
            self.loop_depth += 1;
            if self.rng.chance(1, 2) {
                self.emits(&["I", "drop", "drop"]);
            }
            self.block(2);
            self.loop_depth -= 1;
            self.emit("loop");
        } else {
            self.emit("[");
            let n = 1 + self.rng.below(3);
            for _ in 0..n {
                let s = self.int_lit();
                self.emit(&s);
            }
            self.emits(&["]", "foreach"]);
            self.loop_depth += 1;
            self.block(3);
            self.loop_depth -= 1;
            self.emit("loop");
        }
    }

    fn str_op(&mut self) {
        self.want(Ty::Str);
        match self.rng.below(4) {
            0 => {
                self.emit("length");
                self.pop();
                self.push(Ty::Int);
            }
            1 => {
                self.emits(&["0", "1", "slice"]);
            }
            2 => {
                self.emit("str?");
                self.pop();
                self.push(Ty::Flag);
            }
            _ => {
                self.emits(&["dup", "equal?"]);
                self.pop();
                self.push(Ty::Flag);
            }
        }
    }

    // ------------------------------------------------------------ the rest of the dictionary

    fn logic_op(&mut self) {
        match self.rng.below(6) {
            0 => {
                self.want(Ty::Flag);
                let b = *self.rng.pick(&["true", "false"]);
                self.emit(b);
                let op = *self.rng.pick(&["and", "or", "xor"]);
                self.emit(op);
            }
            1 => {
                self.want(Ty::Flag);
                self.emit("not");
            }
            2 => {
                if self.avail() == 0 {
                    let t = self.some_ty();
                    self.push_lit(t);
                }
                let op = *self.rng.pick(&["nil?", "bool?", "int?", "real?", "bitstr?", "str?", "vec?"]);
                self.emit(op);
                self.pop();
                self.push(Ty::Flag);
            }
            3 if self.f.reals => {
                self.want(Ty::Int);
                self.emit(">real");
                self.pop();
                self.push(Ty::Real);
            }
            4 if self.f.reals => {
                self.want(Ty::Real);
                let op = *self.rng.pick(&[">int", "round"]);
                self.emit(op);
                self.pop();
                self.push(Ty::Int);
            }
            _ => {
                self.want(Ty::Int);
                let op = *self.rng.pick(&[">b", ">kb", ">mb"]);
                self.emit(op);
            }
        }
    }

    fn fmt_op(&mut self) {
        if self.rng.chance(1, 5) {
            if self.avail() == 0 {
                self.push_lit(Ty::Int);
            }
            self.emits(&["{", "1", "\"a\"", "}", "with-tags"]);
            return;
        }
        self.want(Ty::Int);
        match self.rng.below(3) {
            0 => {
                let op = *self.rng.pick(&["^hex", "^dec", "^oct", "^bin"]);
                self.emit(op);
            }
            1 => {
                let b = *self.rng.pick(&["true", "false"]);
                self.emit(b);
                let op = *self.rng.pick(&["fmt/prefix", "fmt/upcase", "fmt/tags"]);
                self.emit(op);
                let base = *self.rng.pick(&["^hex", "^bin", "^oct"]);
                self.emit(base);
            }
            _ => {
                let base = *self.rng.pick(&["^hex", "^bin"]);
                self.emit(base);
                self.emits(&["true", "fmt/tags"]);
            }
        }
        if self.f.print && !self.in_meta && self.rng.chance(1, 2) {
            self.emits(&["dup", "println"]);
        }
    }

    fn codec_op(&mut self) {
        match self.rng.below(6) {
            0 | 1 => {
                self.want(Ty::Bits);
                let (enc, dec) = *self.rng.pick(&[("base32", "base32>"), ("base32hex", "base32hex>"), ("base64", "base64>"), ("zero85", "zero85>")]);
                self.emit(enc);
                self.pop();
                self.push(Ty::Str);
                if self.rng.chance(1, 2) {
                    self.emit(dec);
                    self.pop();
                    self.push(Ty::Bits);
                }
            }
            2 => {
                let s = *self.rng.pick(&["\"ff00\"", "\"a1b2c3\"", "\"\"", "\"0102030405\"", "\"7\""]);
                self.emit(s);
                self.emit("hex>bitstr");
                self.push(Ty::Bits);
            }
            3 => {
                let s = *self.rng.pick(&["|61 62|", "|78 65 68|", "||", "|ff|"]);
                self.emit(s);
                self.emit("bitstr>utf8");
                self.push(Ty::Str);
            }
            4 => {
                let s = *self.rng.pick(&["\"12\"", "\"-7\"", "\"1.5\"", "\"0\"", "\"255\""]);
                self.emit(s);
                self.emit("str>number");
                self.push(Ty::Any);
            }
            _ => {
                let s = *self.rng.pick(&["\"MFRGG===\"", "\"YQ==\"", "\"C5H0\""]);
                let dec = *self.rng.pick(&["base32>", "base64>", "base32hex>", "zero85>"]);
                self.emit(s);
                self.emit(dec);
                self.push(Ty::Bits);
            }
        }
    }

    fn wide_read(&mut self) {
        match self.rng.below(14) {
            0..=3 => {
                let w = *self.rng.pick(&[
                    "u8", "u8le", "u8be", "i8", "i8le", "i8be", "u16", "u16le", "u16be", "i16", "i16le", "i16be", "u32", "u32le", "u32be", "i32", "i32le",
                    "i32be", "u64", "u64le", "u64be", "i64", "i64le", "i64be",
                ]);
                self.emit(w);
                self.push(Ty::Int);
            }
            4 if self.f.reals => {
                let w = *self.rng.pick(&["f32", "f32le", "f32be", "f64", "f64le", "f64be"]);
                self.emit(w);
                self.push(Ty::Real);
            }
            5 if self.f.reals => {
                let n = *self.rng.pick(&["32", "64"]);
                self.emit(n);
                self.emit("float");
                self.push(Ty::Real);
            }
            6 => {
                let w = *self.rng.pick(&["nulbytestr", "cstr"]);
                // make sure a NUL byte lies ahead half of the time
                if self.rng.chance(1, 2) {
                    self.emits(&["|61 62 00 63 64 00|", "open-bitstr"]);
                    self.emit(w);
                    self.emit("close-bitstr");
                } else {
                    self.emit(w);
                }
                self.push(if w == "cstr" { Ty::Str } else { Ty::Bits });
            }
            7 => {
                let pat = *self.rng.pick(&["|00|", "|ff|", "|0|", "|x|", "|12 34|", "||"]);
                self.emit(pat);
                self.emit("find");
                self.push(Ty::Any);
            }
            8 => {
                // a magic that matches: read, seek back, match what was read
                let n = format!("{}", 1 + self.rng.below(16));
                self.emits(&["offset", &n, "bits", "swap", "seek", "magic"]);
                self.push(Ty::Bits);
            }
            9 => {
                let pat = *self.rng.pick(&["|00|", "|ff|", "|x|", "|.|"]);
                self.emit(pat);
                self.emit("magic");
                self.push(Ty::Bits);
            }
            10 if self.f.print => {
                if self.rng.chance(1, 2) {
                    self.emit("dump");
                } else {
                    self.emits(&["offset", "dump-at"]);
                }
            }
            11 => {
                let v = *self.rng.pick(&["input", "output", "output-length", "big?"]);
                self.emit(v);
                self.push(Ty::Any);
            }
            12 => {
                // a nested input that is read from, not only measured
                self.want(Ty::Bits);
                self.pop();
                self.emits(&["open-bitstr", "remain", "0", ">", "if", "1", "bits", "drop", "then", "offset", "drop", "close-bitstr"]);
            }
            _ => {
                let n = format!("{}", 1 + self.rng.below(3));
                self.emit(&n);
                self.emit("bytes");
                self.push(Ty::Bits);
            }
        }
    }

    fn pack_op(&mut self) {
        match self.rng.below(6) {
            0..=2 => {
                self.want(Ty::Int);
                let w = *self.rng.pick(&[
                    "u8!", "u8le!", "u8be!", "i8!", "i8le!", "i8be!", "u16!", "u16le!", "u16be!", "i16!", "i16le!", "i16be!", "u32!", "u32le!", "u32be!", "i32!",
                    "i32le!", "i32be!", "u64!", "u64le!", "u64be!", "i64!", "i64le!", "i64be!",
                ]);
                self.emit(w);
                self.pop();
                self.push(Ty::Bits);
            }
            3 if self.f.reals => {
                self.want(Ty::Real);
                let w = *self.rng.pick(&["f32!", "f32le!", "f32be!", "f64!", "f64le!", "f64be!"]);
                self.emit(w);
                self.pop();
                self.push(Ty::Bits);
            }
            4 if self.f.reals => {
                self.want(Ty::Real);
                let n = *self.rng.pick(&["32", "64"]);
                self.emit(n);
                self.emit("float!");
                self.pop();
                self.push(Ty::Bits);
            }
            _ => {
                self.want(Ty::Int);
                let n = format!("{}", 1 + self.rng.below(40));
                self.emit(&n);
                self.emit("uint!");
                self.pop();
                self.push(Ty::Bits);
            }
        }
    }

    /// a bit-string built at run time (its buffer is not kept alive by a literal in the code)
    fn computed_bits(&mut self) {
        match self.rng.below(5) {
            0 => self.emits(&["[", "1", "2", "3", "]", ">bitstr"]),
            1 => self.emits(&["\"414243444546\"", "hex>bitstr"]),
            2 => self.emits(&["[", "17", "34", "51", "68", "85", "]", ">bitstr"]),
            3 => self.emits(&["0x0102030405", "40", "uint!"]),
            _ => self.emits(&["[", "255", "255", "255", "]", ">bitstr"]),
        }
        self.push(Ty::Bits);
    }

    /// Leave on the stack a slice whose parent buffer nothing else refers to: open a run-time built
    /// bit-string, skip some bits, read the slice, close. Then usually mutate it (append / invert),
    /// which is where the unique-owner shortcuts of the bit-string library are taken.
    fn orphan_slice(&mut self) {
        // one time in three the parent is one or two bytes long and the slice is a prefix that ends
        // inside its last byte: the stale bits after the value's end then sit in the very byte an
        // in-place append writes to (buffer length == the value's upper bound)
        let short = self.rng.chance(1, 3);
        if short {
            let (src, bits): (&[&str], usize) = match self.rng.below(5) {
                0 => (&["\"ff\"", "hex>bitstr"], 8),
                1 => (&["[", "255", "]", ">bitstr"], 8),
                2 => (&["\"a5ff\"", "hex>bitstr"], 16),
                3 => (&["[", "90", "255", "]", ">bitstr"], 16),
                _ => (&["0xffffff", "24", "uint!"], 24),
            };
            self.emits(src);
            self.emit("open-bitstr");
            let lo = bits - 7;
            let n = format!("{}", lo + self.rng.below(7));
            self.emit(&n);
            self.emit("bits");
            self.emit("close-bitstr");
            self.push(Ty::Bits);
            return self.orphan_slice_use();
        }
        self.computed_bits();
        self.pop();
        self.emit("open-bitstr");
        let unit_bits = self.rng.chance(1, 3);
        let skip = self.rng.below(3);
        if skip > 0 {
            let k = format!("{}", if unit_bits { 1 + self.rng.below(9) } else { skip });
            self.emit(&k);
            self.emit(if unit_bits { "bits" } else { "bytes" });
            self.emit("drop");
        }
        let n = format!("{}", if unit_bits { 1 + self.rng.below(12) } else { 1 + self.rng.below(2) });
        self.emit(&n);
        self.emit(if unit_bits { "bits" } else { "bytes" });
        self.emit("close-bitstr");
        self.push(Ty::Bits);
        self.orphan_slice_use()
    }

    fn orphan_slice_use(&mut self) {
        match self.rng.below(8) {
            0 | 1 | 2 => {
                let tail = *self.rng.pick(&["|ff|", "|12 34|", "|x|", "|0|", "|00|"]);
                self.emit(tail);
                self.emits(&["swap", "bitstr-append"]);
            }
            3 => self.emit("bitstr-not"),
            4 => {
                // the slice as a tail: the head is another run-time value
                self.computed_bits();
                self.pop();
                self.emit("bitstr-append");
            }
            5 => {
                self.emits(&["dup", "|f0|", "bitstr-or", "swap"]);
                self.emit("bitstr-not");
                self.push(Ty::Bits);
            }
            6 if self.f.strings => {
                // exporters that may hand out the buffer instead of the value
                let w = *self.rng.pick(&["bitstr>utf8", "bitstr>hex", "base64", "base32", "zero85"]);
                self.emit(w);
                self.pop();
                self.push(Ty::Str);
                return;
            }
            _ => {}
        }
        if self.rng.chance(1, 2) {
            // make the absolute position of the result observable
            match self.rng.below(3) {
                0 => self.emits(&["dup", "open-bitstr", "offset", "remain", "+", "close-bitstr", "swap"]),
                1 => self.emits(&["dup", "bitstr>hex", "swap"]),
                _ => self.emits(&["dup", "bitstr-len", "swap"]),
            }
            let n = self.stack.len();
            self.stack.insert(n - 1, Ty::Any);
        }
    }

    fn immediate_def(&mut self) {
        let name = self.fresh("w");
        let lit = self.int_lit();
        match self.rng.below(6) {
            0 => self.emits(&[":", &name, "immediate", &lit, ";"]),
            1 => self.emits(&[":", &name, &lit, "immediate", ";"]),
            2 => self.emits(&[":", &name, "immediate", &lit, "1", "+", ";"]),
            // build-time effects other than a push (none of them looks at the data stack, which a
            // user immediate sees under eval and not under compile: DESIGN §8.8)
            3 if self.f.emit && self.f.bits => self.emits(&[":", &name, "immediate", "|58 45|", "emit", &lit, ";"]),
            4 if self.f.print => self.emits(&[":", &name, "immediate", "\"i\"", "print", &lit, ";"]),
            5 if self.f.vars && !self.env.vars.is_empty() => {
                let v = self.rng.pick(&self.env.vars).clone();
                if v.ty == Ty::Int {
                    self.emits(&[":", &name, "immediate", &lit, "!", &v.name, &lit, ";"]);
                } else {
                    self.emits(&[":", &name, "immediate", &lit, ";"]);
                }
            }
            _ => self.emits(&[":", &name, "immediate", &lit, "2", "*", ";"]),
        }
        // used at top level straight away; the value it pushes at build time stays on the stack
        if self.rng.chance(2, 3) {
            self.want(Ty::Int);
            self.emit(&name);
            self.push(Ty::Int);
        }
        if self.rng.chance(1, 3) {
            // and inside a definition
            let user = self.fresh("w");
            self.emits(&[":", &user, &name, "2", ";"]);
            self.push(Ty::Int);
            self.env.words.push(WordInfo { name: user, arity: 0, pending: false });
        }
    }

    /// define the late-declared word anew and call its user: whether the user still calls the old
    /// definition depends on whether its call site was already bound
    fn late_rebind(&mut self) {
        let (target, user) = self.rng.pick(&self.env.late_pairs).clone();
        let n = format!("{}", 100 + self.rng.below(50));
        if self.rng.chance(2, 3) {
            self.emits(&[":", &target, &n, ";"]);
        }
        self.emit(&user);
        self.push(Ty::Int);
    }

    fn misc_op(&mut self) {
        let top_level = self.depth == 0 && !self.in_def && !self.in_meta;
        match self.rng.below(7) {
            0 if top_level && self.f.consts => {
                let e = self.fresh("E");
                let a = self.fresh("K");
                let b = self.fresh("K");
                let c = self.fresh("K");
                let v = format!("{}", self.rng.below(9));
                self.emits(&["enum", &e, ":", &a, &v, "=", &b, &a, &b, "+", "=", &c, "endenum"]);
                let pick = self.rng.pick(&[a.clone(), b.clone(), c.clone()]).clone();
                self.emit(&pick);
                self.push(Ty::Int);
                self.env.consts.push(a);
                self.env.consts.push(b);
                self.env.consts.push(c);
            }
            1 => {
                let mut names: Vec<String> = vec!["dup".into(), "zz-never".into()];
                names.extend(self.env.words.iter().map(|w| w.name.clone()));
                names.extend(self.env.vars.iter().map(|v| v.name.clone()));
                let n = self.rng.pick(&names).clone();
                self.emit("defined");
                self.emit(&n);
                self.push(Ty::Flag);
            }
            2 if self.f.meta && !self.in_meta && self.depth < 3 => {
                // a meta block whose results stay on the build-time stack
                let v = self.int_lit();
                self.emits(&["#(", &v, "2", "+", "~)"]);
                self.push(Ty::Int);
            }
            3 if self.f.print && !self.in_meta => self.emit(".s"),
            6 if self.f.vecs && self.f.loops && self.f.print && top_level && self.rng.chance(1, 6) => {
                // a value nested a couple of hundred levels deep, formatted
                let n = format!("{}", 196 + self.rng.below(10));
                self.emits(&["[", "]", &n, "0", "do", "1", "collect", "loop"]);
                match self.rng.below(3) {
                    0 => self.emit("println"),
                    1 => self.emits(&["dup", "print", "drop"]),
                    _ => self.emits(&["1", "collect", "concat", "length"]),
                }
                if self.out.last().map(|t| t == "length").unwrap_or(false) {
                    self.push(Ty::Int);
                }
            }
            4 if self.f.loops && self.depth < 2 => {
                self.emits(&["2", "0", "do", "1", "0", "do", "2", "0", "do", "K", "J", "+", "I", "+", "drop", "loop", "loop", "loop"]);
            }
            5 if self.in_meta && self.f.strings => {
                self.emits(&["<name>", "zz-name"]);
                self.push(Ty::Str);
            }
            _ => {
                if !self.env.consts.is_empty() {
                    let c = self.rng.pick(&self.env.consts).clone();
                    self.emit(&c);
                    self.push(Ty::Int);
                } else {
                    self.push_lit(Ty::Int);
                }
            }
        }
    }
}

/// join tokens with single spaces, occasionally a newline (exercises the lexer's line handling)
pub fn join_tokens(rng: &mut Rng, toks: &[String]) -> String {
    let mut s = String::new();
    for (i, t) in toks.iter().enumerate() {
        if i > 0 {
            if rng.chance(1, 12) {
                s.push('\n');
            } else {
                s.push(' ');
            }
        }
        s.push_str(t);
    }
    s
}

/// Token-level split that keeps string, bit-string literals and comments intact enough for shrinking.
pub fn split_tokens(src: &str) -> Vec<String> {
    let mut out = Vec::new();
    let mut cur = String::new();
    let mut quote: Option<char> = None;
    for c in src.chars() {
        match quote {
            Some(q) => {
                cur.push(c);
                if c == q {
                    quote = None;
                }
            }
            None => {
                if c.is_ascii_whitespace() {
                    if !cur.is_empty() {
                        out.push(std::mem::take(&mut cur));
                    }
                } else {
                    if cur.is_empty() && (c == '"' || c == '|') {
                        quote = Some(c);
                    }
                    cur.push(c);
                }
            }
        }
    }
    if !cur.is_empty() {
        out.push(cur);
    }
    out
}

/// Shrink candidates for one source text: drop token ranges (halves, quarters, ..., single tokens),
/// then replace integer literals by 0 / 1.
pub fn shrink_source(src: &str) -> Vec<String> {
    let toks = split_tokens(src);
    let n = toks.len();
    let mut out = Vec::new();
    if n == 0 {
        return out;
    }
    let mut size = n;
    while size >= 1 {
        let mut start = 0;
        while start < n {
            let end = (start + size).min(n);
            if !(start == 0 && end == n) || n == 1 {
                let mut t: Vec<&str> = Vec::new();
                t.extend(toks[..start].iter().map(|s| s.as_str()));
                t.extend(toks[end..].iter().map(|s| s.as_str()));
                out.push(t.join(" "));
            }
            start += size;
        }
        if size == 1 {
            break;
        }
        size /= 2;
    }
    for (i, t) in toks.iter().enumerate() {
        if t.parse::<i128>().is_ok() && t != "0" && t != "1" {
            for r in ["0", "1"] {
                let mut t2: Vec<&str> = toks.iter().map(|s| s.as_str()).collect();
                t2[i] = r;
                out.push(t2.join(" "));
            }
        }
    }
    if src.contains('\n') {
        out.push(toks.join(" "));
    }
    out.retain(|s| s != src);
    out
}
