//! C04 — bit-string operations depend only on the bit sequence, never on how it is stored.
//! A pool of `xeh::bitstr::Bitstr` handles (real code, public API, no interpreter), each paired
//! with a plain `Vec<bool>` model. The scheduler interleaves creation, clone, derive, DROP and
//! operations: whether an operation mutates in place or copies depends on who else is alive at
//! that instant (`Rc::strong_count == 1`), so the same operations in a different lifetime order
//! take different code paths. Refinement oracle after every action: the result equals the
//! model's, and every live handle still reads back as its model.
//! This engine has a schedule dimension but no fault dimension (allocation failure aborts).
use crate::core::{Engine, Outcome, Stats, Tier, Violation};
use crate::json::Json;
use crate::rng::Rng;
use crate::xutil::{hex_decode, hex_encode};
use xeh::bitstr::{BitvecBuilder, Bitstr, Byteorder};

static ST_ONES: [u8; 6] = [0xff; 6];
static ST_ZERO: [u8; 3] = [0; 3];
static ST_MIX: [u8; 8] = [0x12, 0x34, 0x56, 0x78, 0x9a, 0xbc, 0xde, 0xf0];
static ST_ONE: [u8; 1] = [0xa5];
static ST_EMPTY: [u8; 0] = [];

fn static_buf(i: usize) -> &'static [u8] {
    match i % 5 {
        0 => &ST_ONES,
        1 => &ST_ZERO,
        2 => &ST_MIX,
        3 => &ST_ONE,
        _ => &ST_EMPTY,
    }
}

#[derive(Clone, Debug, PartialEq)]
pub enum Act {
    NewBytes(Vec<u8>),
    NewStatic(usize),
    NewHex(String),
    NewBits(Vec<bool>),
    NewInt(i64, usize, bool),
    /// a buffer of this many bytes of a fixed pattern (sizes around block sizes, without kilobytes of
    /// hex in the case file)
    NewPattern(usize),
    /// the sub-range that leaves out this many bits at the front and at the back
    Trim(usize, usize, usize),
    /// compare with a twin built afresh at the same bit phase that differs in one bit, this far
    /// from the end (0 = no difference)
    EqNear(usize, usize),
    Clone(usize),
    Drop(usize),
    Read(usize, usize),
    Peek(usize, usize),
    Seek(usize, usize),
    Substr(usize, usize, usize),
    Split(usize, usize),
    Append(usize, usize, bool),
    Insert(usize, usize, usize, bool),
    Invert(usize, bool),
    Detach(usize, bool),
    Eq(usize, usize),
    Observe(usize),
}

#[derive(Clone, Debug)]
pub struct Case {
    pub acts: Vec<Act>,
}

pub struct Bitshare;

struct Handle {
    bs: Bitstr,
    model: Vec<bool>,
    group: usize,
}

struct Pool {
    h: Vec<Handle>,
    next_group: usize,
    /// bits the backing buffer of each group is known to hold
    buf_bits: Vec<usize>,
    /// the group's buffer was created full of one-bits (stale bits are visible if leaked)
    ones: Vec<bool>,
}

fn bits_of_bytes(b: &[u8]) -> Vec<bool> {
    let mut v = Vec::with_capacity(b.len() * 8);
    for x in b {
        for i in (0..8).rev() {
            v.push((x >> i) & 1 == 1);
        }
    }
    v
}

fn read_bits(bs: &Bitstr) -> Vec<bool> {
    bs.bits().map(|x| x == 1).collect()
}

fn model_bytes(m: &[bool]) -> Vec<u8> {
    // right-aligned chunks of up to 8 bits, as iter8 yields them
    m.chunks(8).map(|c| c.iter().fold(0u8, |a, b| (a << 1) | (*b as u8))).collect()
}

fn model_hex(m: &[bool]) -> String {
    let mut s = String::new();
    for c in m.chunks(8) {
        let val = c.iter().fold(0u32, |a, b| (a << 1) | (*b as u32));
        if c.len() > 4 {
            s.push(char::from_digit(val >> 4, 16).unwrap());
        }
        s.push(char::from_digit(val & 0xf, 16).unwrap());
    }
    s
}

fn show(m: &[bool]) -> String {
    m.iter().map(|b| if *b { '1' } else { '0' }).collect()
}

impl Pool {
    fn group_size(&self, g: usize) -> usize {
        self.h.iter().filter(|x| x.group == g).count()
    }
    fn new_group(&mut self, bits: usize, ones: bool) -> usize {
        self.buf_bits.push(bits);
        self.ones.push(ones);
        self.next_group += 1;
        self.next_group - 1
    }
    fn check_all(&self, after: &str) -> Outcome {
        for (i, h) in self.h.iter().enumerate() {
            let got = read_bits(&h.bs);
            if got != h.model {
                return Err(Violation::new(
                    "C04.operand",
                    after.split('(').next().unwrap_or(after).to_string(),
                    format!("after {}: live handle #{} reads {} but is {}", after, i, show(&got), show(&h.model)),
                ));
            }
            if h.bs.len() != h.model.len() {
                return Err(Violation::new("C04.operand", "len", format!("after {}: handle #{} len {} vs {}", after, i, h.bs.len(), h.model.len())));
            }
        }
        Ok(())
    }
}

fn mismatch(op: &str, what: &str, got: String, want: String) -> Violation {
    Violation::new("C04.result", format!("{}:{}", op, what), format!("{}: {} is {} but the plain bit sequence gives {}", op, what, got, want))
}

fn observe(h: &Handle, st: &mut Stats) -> Outcome {
    let m = &h.model;
    let bs = &h.bs;
    // iter8
    let mut it_bits: Vec<bool> = Vec::new();
    let mut chunks = 0;
    for (val, n) in bs.iter8() {
        chunks += 1;
        if n == 0 || n > 8 || (n < 8 && (val as u32) >> n != 0) {
            return Err(mismatch("iter8", "chunk", format!("({:#x},{})", val, n), "a value of n bits, 1<=n<=8".into()));
        }
        for i in (0..n).rev() {
            it_bits.push((val >> i) & 1 == 1);
        }
    }
    if &it_bits != m {
        return Err(mismatch("iter8", "bits", show(&it_bits), show(m)));
    }
    if chunks != (m.len() + 7) / 8 {
        return Err(mismatch("iter8", "chunks", format!("{}", chunks), format!("{}", (m.len() + 7) / 8)));
    }
    let hex = bs.to_hex_string();
    if hex != model_hex(m) {
        return Err(mismatch("to_hex_string", "text", hex, model_hex(m)));
    }
    let tb = bs.to_bytes();
    let want = if m.len() % 8 == 0 { Some(model_bytes(m)) } else { None };
    if tb != want {
        return Err(mismatch("to_bytes", "bytes", format!("{:?}", tb), format!("{:?}", want)));
    }
    let by = bs.bytestr().map(|c| c.into_owned());
    if by != want {
        return Err(mismatch("bytestr", "bytes", format!("{:?}", by), format!("{:?}", want)));
    }
    if bs.to_bytes_with_padding() != model_bytes(m) {
        return Err(mismatch("to_bytes_with_padding", "bytes", format!("{:?}", bs.to_bytes_with_padding()), format!("{:?}", model_bytes(m))));
    }
    if let Some(s) = bs.slice() {
        // whether a zero-copy slice exists depends on the alignment; if it does it must be right
        st.count("probe.slice_available");
        if m.len() % 8 != 0 || s != &model_bytes(m)[..] {
            return Err(mismatch("slice", "bytes", format!("{:?}", s), format!("{:?}", model_bytes(m))));
        }
    }
    if bs.is_bytestr() != (m.len() % 8 == 0) {
        return Err(mismatch("is_bytestr", "flag", format!("{}", bs.is_bytestr()), format!("{}", m.len() % 8 == 0)));
    }
    Ok(())
}

fn run(case: &Case, st: &mut Stats) -> Outcome {
    let mut p = Pool { h: Vec::new(), next_group: 0, buf_bits: Vec::new(), ones: Vec::new() };
    const CAP: usize = 10;
    for act in &case.acts {
        let n = p.h.len();
        let label = format!("{:?}", act);
        let kind = label.split(|c| c == '(' || c == ' ').next().unwrap_or("").to_string();
        match act {
            Act::NewBytes(b) => {
                if n < CAP {
                    let g = p.new_group(b.len() * 8, b.iter().all(|x| *x == 0xff) && !b.is_empty());
                    p.h.push(Handle { bs: Bitstr::from(b.clone()), model: bits_of_bytes(b), group: g });
                }
            }
            Act::NewPattern(nbytes) => {
                if n < CAP {
                    let b: Vec<u8> = (0..*nbytes).map(|i| ((i * 37 + 11) % 253) as u8 | if i % 7 == 0 { 0x81 } else { 0 }).collect();
                    let g = p.new_group(b.len() * 8, false);
                    st.count("probe.large_pattern_buffer");
                    p.h.push(Handle { bs: Bitstr::from(b.clone()), model: bits_of_bytes(&b), group: g });
                }
            }
            Act::Trim(i, front, back) => {
                if n > 0 && n < CAP {
                    let i = i % n;
                    let len = p.h[i].model.len();
                    if front + back <= len {
                        let s0 = p.h[i].bs.start();
                        let (a, b) = (*front, len - *back);
                        let r = p.h[i].bs.substr(s0 + a, s0 + b).ok_or_else(|| mismatch("substr", "result", "None".into(), format!("{}..{}", a, b)))?;
                        let m: Vec<bool> = p.h[i].model[a..b].to_vec();
                        if read_bits(&r) != m {
                            return Err(mismatch("substr", "bits", "(long)".into(), "(long)".into()));
                        }
                        let g = p.h[i].group;
                        p.h.push(Handle { bs: r, model: m, group: g });
                    }
                }
            }
            Act::EqNear(i, from_end) => {
                if n > 0 {
                    let i = i % n;
                    let m = p.h[i].model.clone();
                    let phase = p.h[i].bs.start() % 8;
                    let mut twin_bits: Vec<bool> = vec![true; phase];
                    twin_bits.extend(m.iter().cloned());
                    let flipped = *from_end > 0 && *from_end <= m.len();
                    if flipped {
                        let k = phase + m.len() - *from_end;
                        twin_bits[k] = !twin_bits[k];
                    }
                    // pad to whole bytes with ones (stale bits after the end)
                    while twin_bits.len() % 8 != 0 {
                        twin_bits.push(true);
                    }
                    let bytes: Vec<u8> = twin_bits.chunks(8).map(|c| c.iter().fold(0u8, |a, b| (a << 1) | *b as u8)).collect();
                    let whole = Bitstr::from(bytes);
                    if let Some(twin) = whole.substr(phase, phase + m.len()) {
                        let eq = p.h[i].bs.eq_with(&twin);
                        let eq2 = twin.eq_with(&p.h[i].bs);
                        if eq != !flipped || eq2 != !flipped {
                            return Err(mismatch("eq", "near", format!("{} / {}", eq, eq2), format!("{} (twin differs {} bits from the end of {} bits at phase {})", !flipped, from_end, m.len(), phase)));
                        }
                        st.count("probe.eq_against_near_twin");
                    }
                }
            }
            Act::NewStatic(i) => {
                if n < CAP {
                    let b = static_buf(*i);
                    let g = p.new_group(b.len() * 8, i % 5 == 0);
                    st.count("probe.borrowed_static_buffer");
                    p.h.push(Handle { bs: Bitstr::from(b), model: bits_of_bytes(b), group: g });
                }
            }
            Act::NewHex(s) => {
                if n < CAP {
                    if let Ok(bs) = Bitstr::from_hex_str(s) {
                        let mut m = Vec::new();
                        for c in s.chars().filter(|c| !c.is_ascii_whitespace()) {
                            let v = c.to_digit(16).unwrap();
                            for i in (0..4).rev() {
                                m.push((v >> i) & 1 == 1);
                            }
                        }
                        let g = p.new_group(m.len(), false);
                        p.h.push(Handle { bs, model: m, group: g });
                    }
                }
            }
            Act::NewBits(b) => {
                if n < CAP {
                    let mut bb = BitvecBuilder::default();
                    for x in b {
                        bb.append_bit(*x as u8);
                    }
                    let g = p.new_group(b.len(), false);
                    p.h.push(Handle { bs: bb.finish(), model: b.clone(), group: g });
                }
            }
            Act::NewInt(v, nbits, big) => {
                if n < CAP {
                    let bs = Bitstr::from_int(*v as i128, *nbits, if *big { Byteorder::Big } else { Byteorder::Little });
                    // the codec itself is C05's business: the model is what was produced
                    let m = read_bits(&bs);
                    let g = p.new_group(*nbits, false);
                    p.h.push(Handle { bs, model: m, group: g });
                }
            }
            Act::Clone(i) => {
                if n > 0 && n < CAP {
                    let i = i % n;
                    let h = Handle { bs: p.h[i].bs.clone(), model: p.h[i].model.clone(), group: p.h[i].group };
                    p.h.push(h);
                }
            }
            Act::Drop(i) => {
                if n > 0 {
                    let h = p.h.remove(i % n);
                    if p.group_size(h.group) == 1 {
                        st.count("probe.drop_left_sole_owner");
                    }
                    drop(h);
                }
            }
            Act::Read(i, k) => {
                if n > 0 && n < CAP {
                    let i = i % n;
                    let len = p.h[i].model.len();
                    let before = p.h[i].model.clone();
                    let r = p.h[i].bs.read(*k);
                    if *k <= len {
                        let r = r.ok_or_else(|| mismatch("read", "result", "None".into(), format!("{} bits", k)))?;
                        let m: Vec<bool> = before[..*k].to_vec();
                        p.h[i].model = before[*k..].to_vec();
                        let g = p.h[i].group;
                        if read_bits(&r) != m {
                            return Err(mismatch("read", "bits", show(&read_bits(&r)), show(&m)));
                        }
                        p.h.push(Handle { bs: r, model: m, group: g });
                    } else if r.is_some() {
                        return Err(mismatch("read", "result", "Some".into(), "None (past the end)".into()));
                    }
                }
            }
            Act::Peek(i, k) => {
                if n > 0 && n < CAP {
                    let i = i % n;
                    let len = p.h[i].model.len();
                    let r = p.h[i].bs.peek(*k);
                    if *k <= len {
                        let r = r.ok_or_else(|| mismatch("peek", "result", "None".into(), format!("{} bits", k)))?;
                        let m: Vec<bool> = p.h[i].model[..*k].to_vec();
                        if read_bits(&r) != m {
                            return Err(mismatch("peek", "bits", show(&read_bits(&r)), show(&m)));
                        }
                        let g = p.h[i].group;
                        p.h.push(Handle { bs: r, model: m, group: g });
                    } else if r.is_some() {
                        return Err(mismatch("peek", "result", "Some".into(), "None (past the end)".into()));
                    }
                }
            }
            Act::Seek(i, k) => {
                if n > 0 && n < CAP {
                    let i = i % n;
                    let len = p.h[i].model.len();
                    let pos = p.h[i].bs.start() + *k;
                    let r = p.h[i].bs.seek(pos);
                    if *k <= len {
                        let r = r.ok_or_else(|| mismatch("seek", "result", "None".into(), format!("offset {}", k)))?;
                        let m: Vec<bool> = p.h[i].model[*k..].to_vec();
                        if read_bits(&r) != m {
                            return Err(mismatch("seek", "bits", show(&read_bits(&r)), show(&m)));
                        }
                        let g = p.h[i].group;
                        p.h.push(Handle { bs: r, model: m, group: g });
                    } else if r.is_some() {
                        return Err(mismatch("seek", "result", "Some".into(), "None (past the end)".into()));
                    }
                }
            }
            Act::Substr(i, a, b) => {
                if n > 0 && n < CAP {
                    let i = i % n;
                    let len = p.h[i].model.len();
                    let s0 = p.h[i].bs.start();
                    let r = p.h[i].bs.substr(s0 + *a, s0 + *b);
                    if *a <= *b && *b <= len {
                        let r = r.ok_or_else(|| mismatch("substr", "result", "None".into(), format!("{}..{}", a, b)))?;
                        let m: Vec<bool> = p.h[i].model[*a..*b].to_vec();
                        if read_bits(&r) != m {
                            return Err(mismatch("substr", "bits", show(&read_bits(&r)), show(&m)));
                        }
                        let g = p.h[i].group;
                        p.h.push(Handle { bs: r, model: m, group: g });
                    } else if r.is_some() {
                        return Err(mismatch("substr", "result", "Some".into(), "None (out of range)".into()));
                    }
                }
            }
            Act::Split(i, k) => {
                if n > 0 && n + 1 < CAP {
                    let i = i % n;
                    let len = p.h[i].model.len();
                    let r = p.h[i].bs.split_at(*k);
                    if *k <= len {
                        let (l, r) = r.ok_or_else(|| mismatch("split_at", "result", "None".into(), format!("at {}", k)))?;
                        let ml: Vec<bool> = p.h[i].model[..*k].to_vec();
                        let mr: Vec<bool> = p.h[i].model[*k..].to_vec();
                        if read_bits(&l) != ml || read_bits(&r) != mr {
                            return Err(mismatch("split_at", "bits", format!("{} / {}", show(&read_bits(&l)), show(&read_bits(&r))), format!("{} / {}", show(&ml), show(&mr))));
                        }
                        let g = p.h[i].group;
                        p.h.push(Handle { bs: l, model: ml, group: g });
                        p.h.push(Handle { bs: r, model: mr, group: g });
                    } else if r.is_some() {
                        return Err(mismatch("split_at", "result", "Some".into(), "None (past the end)".into()));
                    }
                }
            }
            Act::Append(i, j, take) | Act::Insert(i, _, j, take) => {
                if n > 0 && n < CAP {
                    let i = i % n;
                    let j = j % n;
                    // the tail is only borrowed by the operation; this clone keeps it alive while the head may be moved out of the pool
                    let tail_ref = p.h[j].bs.clone();
                    let tail_m = p.h[j].model.clone();
                    let at = if let Act::Insert(_, at, _, _) = act { Some(*at) } else { None };
                    let (head, head_m, g) = if *take && i != j {
                        let h = p.h.remove(i);
                        (h.bs, h.model, h.group)
                    } else {
                        (p.h[i].bs.clone(), p.h[i].model.clone(), p.h[i].group)
                    };
                    // is the head the only owner of its buffer at this instant?
                    let sole = *take && i != j && !p.h.iter().any(|x| x.group == g);
                    let slack = head.start() > 0 || head.end() < p.buf_bits[g];
                    if at.is_none() {
                        if sole {
                            st.count("probe.append_sole_owner_path");
                            if slack {
                                st.count("probe.append_sole_owner_with_slack");
                                if p.ones[g] {
                                    st.count("probe.append_sole_owner_stale_one_bits");
                                }
                            }
                        } else {
                            st.count("probe.append_shared_copy_path");
                        }
                        if head.is_u8_slice() && tail_ref.is_u8_slice() {
                            st.count("probe.append_aligned");
                        } else {
                            st.count("probe.append_bitwise");
                        }
                    }
                    let (res, want): (Option<Bitstr>, Option<Vec<bool>>) = match at {
                        None => {
                            let mut m = head_m.clone();
                            m.extend_from_slice(&tail_m);
                            (Some(head.append(&tail_ref)), Some(m))
                        }
                        Some(at) => {
                            let r = head.insert(at, &tail_ref);
                            if at <= head_m.len() {
                                let mut m = head_m[..at].to_vec();
                                m.extend_from_slice(&tail_m);
                                m.extend_from_slice(&head_m[at..]);
                                (r, Some(m))
                            } else {
                                if r.is_some() {
                                    return Err(mismatch("insert", "result", "Some".into(), "None (past the end)".into()));
                                }
                                (None, None)
                            }
                        }
                    };
                    drop(tail_ref);
                    let op = if at.is_some() { "insert" } else { "append" };
                    match (res, want) {
                        (Some(r), Some(m)) => {
                            let got = read_bits(&r);
                            if got != m {
                                return Err(Violation::new(
                                    "C04.result",
                                    format!("{}:bits:{}", op, if sole { "sole-owner" } else { "shared" }),
                                    format!("{} ({}): result {} but the plain bit sequences give {}", op, if sole { "head was the sole owner of its buffer" } else { "buffer shared" }, show(&got), show(&m)),
                                ));
                            }
                            let ng = if sole && at.is_none() {
                                p.buf_bits[g] = r.end();
                                g
                            } else {
                                p.new_group(r.end(), false)
                            };
                            p.h.push(Handle { bs: r, model: m, group: ng });
                        }
                        (None, Some(_)) => return Err(mismatch(op, "result", "None".into(), "Some".into())),
                        _ => {}
                    }
                }
            }
            Act::Invert(i, take) | Act::Detach(i, take) => {
                if n > 0 && n < CAP {
                    let i = i % n;
                    let is_invert = matches!(act, Act::Invert(..));
                    let (h, m, g) = if *take {
                        let h = p.h.remove(i);
                        (h.bs, h.model, h.group)
                    } else {
                        (p.h[i].bs.clone(), p.h[i].model.clone(), p.h[i].group)
                    };
                    let sole = *take && !p.h.iter().any(|x| x.group == g);
                    st.count(match (is_invert, sole) {
                        (true, true) => "probe.invert_sole_owner_path",
                        (true, false) => "probe.invert_shared_copy_path",
                        (false, true) => "probe.detach_sole_owner_path",
                        (false, false) => "probe.detach_shared_copy_path",
                    });
                    let (r, want) = if is_invert { (h.invert(), m.iter().map(|b| !*b).collect::<Vec<bool>>()) } else { (h.detach(), m.clone()) };
                    let got = read_bits(&r);
                    if got != want {
                        return Err(Violation::new(
                            "C04.result",
                            format!("{}:bits:{}", if is_invert { "invert" } else { "detach" }, if sole { "sole-owner" } else { "shared" }),
                            format!("{}: result {} but the plain bit sequence gives {}", if is_invert { "invert" } else { "detach" }, show(&got), show(&want)),
                        ));
                    }
                    let ng = if sole { g } else { p.new_group(r.end(), false) };
                    p.h.push(Handle { bs: r, model: want, group: ng });
                }
            }
            Act::Eq(i, j) => {
                if n > 0 {
                    let (i, j) = (i % n, j % n);
                    let got = p.h[i].bs == p.h[j].bs;
                    let want = p.h[i].model == p.h[j].model;
                    if p.h[i].bs.is_u8_slice() && p.h[j].bs.is_u8_slice() {
                        st.count("probe.eq_fast_path");
                    } else {
                        st.count("probe.eq_slow_path");
                    }
                    if want {
                        st.count("probe.eq_true");
                    }
                    if got != want {
                        return Err(mismatch("eq", "flag", format!("{}", got), format!("{} ({} vs {})", want, show(&p.h[i].model), show(&p.h[j].model))));
                    }
                }
            }
            Act::Observe(i) => {
                if n > 0 {
                    observe(&p.h[i % n], st)?;
                }
            }
        }
        st.event(&kind, p.h.len());
        p.check_all(&label)?;
        if p.h.len() >= 2 {
            st.nontrivial = true;
        }
    }
    // alignment coverage: (start mod 8, end mod 8) of every surviving handle
    let mut f = crate::rng::Fnv::new();
    for h in &p.h {
        f.u64((h.bs.start() % 8) as u64 * 8 + (h.bs.end() % 8) as u64);
        f.u64(h.model.len() as u64);
        st.state(((h.bs.start() % 8) * 8 + (h.bs.end() % 8)) as u64);
    }
    st.log_u64(f.get());
    Ok(())
}

fn rand_bytes(rng: &mut Rng) -> Vec<u8> {
    let n = rng.small(24);
    let style = rng.below(4);
    (0..n)
        .map(|_| match style {
            0 => 0xff,
            1 => 0,
            _ => rng.below(256) as u8,
        })
        .collect()
}

impl Engine for Bitshare {
    type Case = Case;
    const NAME: &'static str = "bitshare";
    const PROP: &'static str = "C04";
    const RULE: &'static str = "one case = a sequence of up to 60 actions (create / clone / derive / DROP / append / insert / invert / detach / compare / observe) over a pool of up to 10 handles with a Vec<bool> model each. Distinct = distinct (action kind, pool size) sequences; non-trivial = at least two handles were alive together at some point. States = (start mod 8, end mod 8) alignment classes of surviving handles.";
    const REAL: &'static str = "xeh::bitstr (Bitstr, BitvecBuilder, Bits, Iter8) through its public API";
    const STUB: &'static str = "nothing is stubbed; the interpreter is not involved; allocation failure is not injected (it aborts)";

    fn generate(rng: &mut Rng, _tier: Tier) -> Case {
        let n = 3 + rng.below(58);
        let drop_rate = *rng.pick(&[1usize, 3, 6]);
        let take_rate = *rng.pick(&[1usize, 2, 3]);
        let mut acts = Vec::new();
        // a couple of values to start with
        for _ in 0..(1 + rng.below(3)) {
            acts.push(new_value(rng));
        }
        if rng.chance(1, 20_000) {
            // rarely: buffers of some kilobytes, sizes around block sizes, then sub-ranges that
            // start or end a few bits inside them (size thresholds in the byte-wise fast paths)
            let nb = *rng.pick(&[4096usize, 8192, 4097, 12288, 65536]);
            acts.push(Act::NewPattern(nb + rng.below(3)));
            let at = acts.len() - 1;
            for _ in 0..(1 + rng.below(4)) {
                acts.push(Act::Trim(at, *rng.pick(&[0usize, 0, 8, 3, 16]) + 8 * rng.below(3), rng.below(17)));
                acts.push(Act::Observe(acts.len() - 1));
            }
        }
        for _ in 0..n {
            let take = rng.chance(take_rate, 4);
            let i = rng.below(16);
            let j = rng.below(16);
            let k = rng.small(40);
            let a = match rng.below(30) {
                0..=2 => new_value(rng),
                3..=4 => Act::Clone(i),
                5..=10 => {
                    if rng.chance(drop_rate, 6) {
                        Act::Drop(i)
                    } else {
                        Act::Read(i, k)
                    }
                }
                11 => Act::Peek(i, k),
                12 => Act::Seek(i, k),
                13 => {
                    let b = k + rng.small(20);
                    Act::Substr(i, k, b)
                }
                14 => Act::Split(i, k),
                15..=19 => Act::Append(i, j, take),
                20..=21 => Act::Insert(i, k, j, take),
                22..=23 => Act::Invert(i, take),
                24 => Act::Detach(i, take),
                25 => Act::Eq(i, j),
                26 => Act::EqNear(i, if rng.chance(1, 4) { 0 } else { 1 + rng.small(12) }),
                _ => Act::Observe(i),
            };
            acts.push(a);
        }
        Case { acts }
    }

    fn execute(case: &Case, st: &mut Stats) -> Outcome {
        run(case, st)
    }

    fn shrink(case: &Case) -> Vec<Case> {
        let mut out = Vec::new();
        let n = case.acts.len();
        let mut size = n / 2;
        while size >= 1 {
            let mut start = 0;
            while start < n {
                let mut a = case.acts.clone();
                a.drain(start..(start + size).min(n));
                out.push(Case { acts: a });
                start += size;
            }
            size /= 2;
        }
        for (i, a) in case.acts.iter().enumerate() {
            let simpler: Vec<Act> = match a {
                Act::NewBytes(b) if !b.is_empty() => {
                    let mut v = vec![Act::NewBytes(b[..b.len() - 1].to_vec()), Act::NewBytes(b[1..].to_vec())];
                    if b.iter().any(|x| *x != 0 && *x != 0xff) {
                        v.push(Act::NewBytes(b.iter().map(|x| if *x >= 0x80 { 0xff } else { 0 }).collect()));
                    }
                    v
                }
                Act::Read(h, k) if *k > 0 => vec![Act::Read(*h, k / 2), Act::Read(*h, k - 1)],
                Act::Peek(h, k) if *k > 0 => vec![Act::Peek(*h, k / 2)],
                Act::Seek(h, k) if *k > 0 => vec![Act::Seek(*h, k / 2)],
                Act::Split(h, k) if *k > 0 => vec![Act::Split(*h, k / 2)],
                Act::Insert(h, k, j, t) if *k > 0 => vec![Act::Insert(*h, k / 2, *j, *t)],
                Act::NewStatic(_) | Act::NewHex(_) | Act::NewBits(_) | Act::NewInt(..) => vec![Act::NewBytes(vec![0xff, 0xff])],
                _ => vec![],
            };
            for s in simpler {
                let mut acts = case.acts.clone();
                acts[i] = s;
                out.push(Case { acts });
            }
        }
        out
    }

    fn to_json(c: &Case) -> Json {
        let acts: Vec<Json> = c
            .acts
            .iter()
            .map(|a| match a {
                Act::NewBytes(b) => crate::jobj! {"op" => "new_bytes", "hex" => hex_encode(b)},
                Act::NewPattern(nb) => crate::jobj! {"op" => "new_pattern", "bytes" => *nb},
                Act::Trim(i, a, b) => crate::jobj! {"op" => "trim", "i" => *i, "a" => *a, "b" => *b},
                Act::EqNear(i, k) => crate::jobj! {"op" => "eq_near", "i" => *i, "k" => *k},
                Act::NewStatic(i) => crate::jobj! {"op" => "new_static", "i" => *i},
                Act::NewHex(s) => crate::jobj! {"op" => "new_hex", "s" => s.clone()},
                Act::NewBits(b) => crate::jobj! {"op" => "new_bits", "s" => show(b)},
                Act::NewInt(v, n, big) => crate::jobj! {"op" => "new_int", "v" => *v, "n" => *n, "big" => *big},
                Act::Clone(i) => crate::jobj! {"op" => "clone", "i" => *i},
                Act::Drop(i) => crate::jobj! {"op" => "drop", "i" => *i},
                Act::Read(i, k) => crate::jobj! {"op" => "read", "i" => *i, "k" => *k},
                Act::Peek(i, k) => crate::jobj! {"op" => "peek", "i" => *i, "k" => *k},
                Act::Seek(i, k) => crate::jobj! {"op" => "seek", "i" => *i, "k" => *k},
                Act::Substr(i, a, b) => crate::jobj! {"op" => "substr", "i" => *i, "a" => *a, "b" => *b},
                Act::Split(i, k) => crate::jobj! {"op" => "split", "i" => *i, "k" => *k},
                Act::Append(i, j, t) => crate::jobj! {"op" => "append", "i" => *i, "j" => *j, "take" => *t},
                Act::Insert(i, k, j, t) => crate::jobj! {"op" => "insert", "i" => *i, "k" => *k, "j" => *j, "take" => *t},
                Act::Invert(i, t) => crate::jobj! {"op" => "invert", "i" => *i, "take" => *t},
                Act::Detach(i, t) => crate::jobj! {"op" => "detach", "i" => *i, "take" => *t},
                Act::Eq(i, j) => crate::jobj! {"op" => "eq", "i" => *i, "j" => *j},
                Act::Observe(i) => crate::jobj! {"op" => "observe", "i" => *i},
            })
            .collect();
        crate::jobj! {"acts" => Json::Arr(acts)}
    }

    fn from_json(j: &Json) -> Result<Case, String> {
        let mut acts = Vec::new();
        for a in j.f_arr("acts")? {
            let op = a.f_str("op")?;
            let u = |k: &str| a.f_usize(k);
            acts.push(match op.as_str() {
                "new_bytes" => Act::NewBytes(hex_decode(&a.f_str("hex")?)?),
                "new_pattern" => Act::NewPattern(u("bytes")?),
                "trim" => Act::Trim(u("i")?, u("a")?, u("b")?),
                "eq_near" => Act::EqNear(u("i")?, u("k")?),
                "new_static" => Act::NewStatic(u("i")?),
                "new_hex" => Act::NewHex(a.f_str("s")?),
                "new_bits" => Act::NewBits(a.f_str("s")?.chars().map(|c| c == '1').collect()),
                "new_int" => Act::NewInt(a.f_int("v")? as i64, u("n")?, a.f_bool("big")?),
                "clone" => Act::Clone(u("i")?),
                "drop" => Act::Drop(u("i")?),
                "read" => Act::Read(u("i")?, u("k")?),
                "peek" => Act::Peek(u("i")?, u("k")?),
                "seek" => Act::Seek(u("i")?, u("k")?),
                "substr" => Act::Substr(u("i")?, u("a")?, u("b")?),
                "split" => Act::Split(u("i")?, u("k")?),
                "append" => Act::Append(u("i")?, u("j")?, a.f_bool("take")?),
                "insert" => Act::Insert(u("i")?, u("k")?, u("j")?, a.f_bool("take")?),
                "invert" => Act::Invert(u("i")?, a.f_bool("take")?),
                "detach" => Act::Detach(u("i")?, a.f_bool("take")?),
                "eq" => Act::Eq(u("i")?, u("j")?),
                "observe" => Act::Observe(u("i")?),
                other => return Err(format!("unknown op {}", other)),
            });
        }
        Ok(Case { acts })
    }
}

fn new_value(rng: &mut Rng) -> Act {
    match rng.below(10) {
        0..=4 => Act::NewBytes(rand_bytes(rng)),
        5..=6 => Act::NewStatic(rng.below(5)),
        7 => {
            let n = rng.small(20);
            let s: String = (0..n).map(|_| char::from_digit(rng.below(16) as u32, 16).unwrap()).collect();
            Act::NewHex(s)
        }
        8 => {
            let n = rng.small(70);
            let ones = rng.chance(1, 3);
            Act::NewBits((0..n).map(|_| ones || rng.chance(1, 2)).collect())
        }
        _ => Act::NewInt(rng.range(-1000, 1000), rng.small(64), rng.chance(1, 2)),
    }
}
