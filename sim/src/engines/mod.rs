pub mod drive;
