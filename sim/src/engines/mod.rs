pub mod drive;
pub mod reverse;
pub mod limits;
pub mod reject;
pub mod bitshare;
pub mod clones;
pub mod cursor;
pub mod chaos;
