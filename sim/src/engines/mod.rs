pub mod drive;
pub mod reverse;
