//! C15 — how a program is driven does not change what it does.
//! Six parties, each booted and fed the same accepted history, then the same program driven as
//! {eval, compile+run, compile+step*} x {recording off, on}; results, stack, variables and
//! output must agree pairwise. The simulator is the host that decides how execution is sliced.
use crate::core::{Engine, Outcome, Stats, Tier, Violation};
use crate::gen::{shrink_source, Env, Features, Gen, Ty};
use crate::json::Json;
use crate::rng::Rng;
use crate::xutil::*;
use xeh::prelude::*;

#[derive(Clone, Debug)]
pub struct Case {
    pub input: Vec<u8>,
    pub intercept_emit: bool,
    pub rec_from_boot: bool,
    pub history: Vec<String>,
    pub program: String,
    pub insn_limit: usize,
    /// data-stack limit armed on every party before the program: current depth + this
    pub stack_slack: Option<usize>,
    /// heap limit armed on every party before the program: current heap length + this
    pub heap_slack: Option<usize>,
}

pub struct Drive;

#[derive(Clone, Copy, Debug, PartialEq)]
enum Mode {
    Eval,
    CompileRun,
    CompileStep,
}

const MODES: [(Mode, bool); 6] = [
    (Mode::Eval, false),
    (Mode::CompileRun, false),
    (Mode::CompileStep, false),
    (Mode::Eval, true),
    (Mode::CompileRun, true),
    (Mode::CompileStep, true),
];

fn mode_name(m: Mode, rec: bool) -> String {
    format!("{:?}{}", m, if rec { "+rec" } else { "" })
}

struct Driven {
    result: String,
    obs: Obs,
    steps: u64,
}

fn drive(case: &Case, mode: Mode, rec: bool, st: Option<&mut Stats>) -> Driven {
    let cfg = BootCfg { recording: rec && case.rec_from_boot, intercept_emit: case.intercept_emit, input: case.input.clone(), d2: false };
    let mut xs = boot(&cfg);
    // a word of the host's whose body compiles more code while the program runs: all of it
    // belongs to the program, however it is driven
    fn host_compile(xs: &mut Xstate) -> Xresult {
        xs.compile("424277 424278 +")
    }
    xs.defword("zz-host-compile", host_compile).unwrap();
    for h in &case.history {
        // bounded: a shrunk history may loop forever
        xs.set_insn_limit(Some(20_000)).unwrap();
        let _ = xs.eval(h);
    }
    // history output is not part of the comparison
    let _ = xs.read_stdout();
    if rec {
        xs.set_recording_enabled(true);
    }
    xs.set_insn_limit(Some(case.insn_limit)).unwrap();
    // the same faults for every party: a full stack or heap at the same absolute size
    if let Some(k) = case.stack_slack {
        xs.set_stack_limit(Some(xs.verif_data_len() + k)).unwrap();
    }
    if let Some(k) = case.heap_slack {
        xs.set_heap_limit(Some(xs.verif_heap_len() + k)).unwrap();
    }
    let mut steps = 0u64;
    let result: Xresult = match mode {
        Mode::Eval => xs.eval(&case.program),
        Mode::CompileRun => xs.compile(&case.program).and_then(|_| xs.run()),
        Mode::CompileStep => match xs.compile(&case.program) {
            Err(e) => Err(e),
            Ok(()) => {
                let mut res = Ok(());
                let cap = case.insn_limit as u64 * 2 + 100;
                let mut st = st;
                while xs.is_running() {
                    if let Some(s) = st.as_deref_mut() {
                        let op = xs.verif_opcode(&xs.bytecode()[xs.ip()]);
                        let kind = op.split(' ').next().unwrap_or("");
                        s.event(kind, xs.ip());
                    }
                    steps += 1;
                    if steps > cap {
                        res = Err(Xerr::ErrorMsg("harness step cap".into()));
                        break;
                    }
                    if let Err(e) = xs.next() {
                        res = Err(e);
                        break;
                    }
                }
                res
            }
        },
    };
    let mut result = render_result(&result);
    // Sliced by the instruction limit: the host grants a fresh budget and drives on in the same
    // manner (run() after eval / run(), next() after next()) until the program ends. However the
    // execution was sliced, what the program does must not change.
    let paused = result.starts_with("Err(ErrorMsg(") && is_limit_msg(&result, Some("insn")) && xs.verif_insn_meter() >= case.insn_limit;
    if paused && xs.is_running() {
        let budget = 20_000usize;
        xs.set_insn_limit(Some(budget)).unwrap();
        let r2: Xresult = match mode {
            Mode::Eval | Mode::CompileRun => xs.run(),
            Mode::CompileStep => {
                let mut res = Ok(());
                let mut n = 0usize;
                while xs.is_running() {
                    n += 1;
                    if n > 2 * budget {
                        res = Err(Xerr::ErrorMsg("harness step cap".into()));
                        break;
                    }
                    if let Err(e) = xs.next() {
                        res = Err(e);
                        break;
                    }
                }
                res
            }
        };
        result = format!("{} | resumed: {}", result, render_result(&r2));
    }
    Driven { result, obs: observe(&mut xs), steps }
}

impl Engine for Drive {
    type Case = Case;
    const NAME: &'static str = "drive";
    const PROP: &'static str = "C15";
    const RULE: &'static str = "one case = (binary input, accepted history, program); six parties drive the program as {eval, compile+run, compile+step*} x {recording off,on}. Distinct = distinct executed (opcode kind, ip) sequences in step mode; non-trivial = the program compiled and executed at least 3 instructions.";
    const REAL: &'static str = "xeh lexer, compiler, VM (eval/compile/run/next), reverse-log recording, bit-string input words, stdout capture via intercept_stdout";
    const STUB: &'static str = "process stdout (captured in memory); no terminal, files or child processes are reachable from the generated words";

    fn generate(rng: &mut Rng, _tier: Tier) -> Case {
        let mut f = Features::swarm(rng);
        f.immediates = rng.chance(1, 3);
        let input_len = *rng.pick(&[0usize, 8, 64, 64, 64]);
        let input = random_bytes(rng, input_len);
        let intercept_emit = rng.chance(1, 2);
        // without interception `emit` writes to the process's real stdout
        f.emit = f.emit && intercept_emit;
        let rec_from_boot = rng.chance(1, 2);
        let nh = rng.below(4);
        let mut history = Vec::new();
        let mut env = Env::default();
        let mut stack: Vec<Ty> = Vec::new();
        // dry twin used only to keep the history "accepted": the interpreter must be idle
        let mut twin = boot(&BootCfg { recording: false, intercept_emit, input: input.clone(), d2: false });
        twin.set_insn_limit(Some(20_000)).unwrap();
        for _ in 0..nh {
            let n = 3 + rng.below(25);
            let mut g = Gen::new(rng, f.clone(), env.clone(), "h");
            let (src, st2) = g.source(n, &stack);
            let env2 = g.env.clone();
            let snapshot = twin.clone();
            let r = twin.eval(&src);
            if r.is_ok() {
                history.push(src);
                env = env2;
                stack = st2;
            } else {
                // "idle" also means: an earlier line failed and left nothing of itself running
                // (no frames, loop records, builder marks or pending structures)
                let d = twin.verif_dump();
                let clean = d.frames.is_empty() && d.loops.is_empty() && d.special.is_empty() && d.flows.is_empty() && d.nested.is_empty() && !twin.is_running();
                if clean && rng.chance(1, 2) {
                    history.push(src);
                    // what it defined before failing is unknown to the generator: keep the old names
                    env.counter = env2.counter;
                    stack = Vec::new();
                } else {
                    twin = snapshot;
                    env.counter = env2.counter;
                }
            }
        }
        let n = 3 + rng.below(60);
        let mut g = Gen::new(rng, f, env, "p");
        let (program, _) = g.source(n, &stack);
        let program = if rng.chance(1, 40) {
            // the host word somewhere at the top level of the program
            format!("{} zz-host-compile 7", program)
        } else {
            program
        };
        let insn_limit = *rng.pick(&[50usize, 500, 5000, 5000, 5000]);
        let stack_slack = if rng.chance(1, 4) { Some(rng.below(7)) } else { None };
        let heap_slack = if rng.chance(1, 8) { Some(rng.below(3)) } else { None };
        Case { input, intercept_emit, rec_from_boot, history, program, insn_limit, stack_slack, heap_slack }
    }

    fn execute(case: &Case, st: &mut Stats) -> Outcome {
        let mut outs: Vec<Driven> = Vec::new();
        for (i, (m, rec)) in MODES.iter().enumerate() {
            let d = if i == 2 { drive(case, *m, *rec, Some(st)) } else { drive(case, *m, *rec, None) };
            outs.push(d);
        }
        st.insns += outs[2].steps;
        st.nontrivial = outs[2].steps >= 3;
        st.log(&outs[0].result);
        st.log_u64(outs[0].obs.hash());
        st.state(outs[0].obs.hash());
        if outs[0].result != "Ok" {
            st.count("probe.program_failed");
        } else {
            st.count("probe.program_ok");
        }
        if outs[0].result.contains("insn limit") {
            st.count("fault.watchdog_insn_limit");
        }
        if outs[0].result.contains("stack limit reached") {
            st.count("fault.stack_limit_trip");
        }
        if outs[0].result.contains("heap limit reached") {
            st.count("fault.heap_limit_trip");
        }
        if outs[0].result.contains("resumed:") {
            st.count("fault.paused_by_insn_limit_then_resumed");
        }
        if !outs[0].obs.out.is_empty() {
            st.count("probe.output_nonempty");
        }
        for i in 1..6 {
            let a = &outs[0];
            let b = &outs[i];
            let name = mode_name(MODES[i].0, MODES[i].1);
            if a.result != b.result {
                return Err(Violation::new(
                    "C15.result",
                    format!("Eval-vs-{}", name),
                    format!("eval returned {} but {} returned {}", a.result, name, b.result),
                ));
            }
            if let Some(d) = a.obs.diff(&b.obs) {
                let what = d.split(' ').next().unwrap_or("").to_string();
                return Err(Violation::new(
                    "C15.state",
                    format!("Eval-vs-{}:{}", name, what),
                    format!("after the program, eval and {} differ: {}", name, d),
                ));
            }
        }
        Ok(())
    }

    fn shrink(case: &Case) -> Vec<Case> {
        let mut out = Vec::new();
        for i in 0..case.history.len() {
            let mut c = case.clone();
            c.history.remove(i);
            out.push(c);
        }
        for s in shrink_source(&case.program) {
            let mut c = case.clone();
            c.program = s;
            out.push(c);
        }
        for i in 0..case.history.len() {
            for s in shrink_source(&case.history[i]) {
                let mut c = case.clone();
                c.history[i] = s;
                out.push(c);
            }
        }
        if !case.input.is_empty() {
            let mut c = case.clone();
            c.input.clear();
            out.push(c);
        }
        if case.intercept_emit {
            let mut c = case.clone();
            c.intercept_emit = false;
            out.push(c);
        }
        if case.rec_from_boot {
            let mut c = case.clone();
            c.rec_from_boot = false;
            out.push(c);
        }
        if case.stack_slack.is_some() {
            let mut c = case.clone();
            c.stack_slack = None;
            out.push(c);
        }
        if case.heap_slack.is_some() {
            let mut c = case.clone();
            c.heap_slack = None;
            out.push(c);
        }
        out
    }

    fn to_json(c: &Case) -> Json {
        crate::jobj! {
            "input" => hex_encode(&c.input),
            "intercept_emit" => c.intercept_emit,
            "rec_from_boot" => c.rec_from_boot,
            "history" => strs(&c.history),
            "program" => c.program.clone(),
            "insn_limit" => c.insn_limit,
            "stack_slack" => c.stack_slack,
            "heap_slack" => c.heap_slack
        }
    }

    fn from_json(j: &Json) -> Result<Case, String> {
        Ok(Case {
            input: hex_decode(&j.f_str("input")?)?,
            intercept_emit: j.f_bool("intercept_emit")?,
            rec_from_boot: j.f_bool("rec_from_boot")?,
            history: json_strs(j, "history")?,
            program: j.f_str("program")?,
            insn_limit: j.f_usize("insn_limit")?,
            stack_slack: j.get("stack_slack").and_then(|x| x.int()).map(|x| x as usize),
            heap_slack: j.get("heap_slack").and_then(|x| x.int()).map(|x| x as usize),
        })
    }
}
