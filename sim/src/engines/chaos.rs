//! C08 — no source text, input or API call sequence can crash the interpreter.
//! What simulation adds to plain input fuzzing, and what this engine is claimed for: arbitrary
//! SEQUENCES of API calls on one long-lived interpreter (eval after a failed eval, rnext after an
//! error, stepping after a limit trip, error formatting at any time, clone and continue), with
//! faults firing inside words: instruction / stack / heap limit trips, a stdout sink that breaks
//! after n bytes, virtual files that are missing, unreadable or not UTF-8, a stub child process
//! that cannot be spawned; in both overflow-check configurations; with exact replay.
//! The word x argument-class sweep is the workload corpus (input enumeration by sampling).
//! Oracle: every call returns. A panic is caught and reported; an abort or hang is seen by the
//! supervisor, which recovers the in-flight case.
use crate::core::{Engine, Outcome, Stats, Tier};
use crate::gen::{shrink_source, Env as GenEnv, Features, Gen};
use crate::json::Json;
use crate::rng::Rng;
use crate::xutil::*;
use xeh::file::verif_env;
use xeh::prelude::*;

#[derive(Clone, Debug, PartialEq)]
pub enum Call {
    Eval(String),
    Compile(String),
    Run,
    Next(usize),
    RNext(usize),
    /// pretty_error, last_error, last_err_location, location_from_current_ip
    ErrorInfo,
    /// format_cell and format_cell_safe of every stack item, var_list, word_list
    Format,
    /// fmt_opcode over the whole code vector
    Disasm,
    SetInput(Vec<u8>, usize, usize),
    InsnLimit(usize),
    StackLimit(usize),
    HeapLimit(Option<usize>),
    Recording(bool),
    /// continue on a clone, drop the original
    Clone,
    InterceptStdout(bool),
    InterceptOutput(bool),
    ReadStdout,
}

#[derive(Clone, Debug)]
pub struct Case {
    pub d2: bool,
    /// the process's stdout fails after this many bytes (when not intercepted)
    pub sink_fail_after: Option<usize>,
    /// 0 = the child process echoes, 1 = cannot be spawned, 2 = no such program
    pub exec_mode: usize,
    pub entropy: u64,
    pub calls: Vec<Call>,
}

pub struct Chaos;

/// value classes, as source text
pub const VALUES: &[&str] = &[
    "nil",
    "true",
    "false",
    "0",
    "1",
    "-1",
    "2",
    "8",
    "127",
    "128",
    "255",
    "256",
    "9223372036854775807",
    "9223372036854775808",
    "-9223372036854775808",
    "18446744073709551615",
    "18446744073709551616",
    "170141183460469231731687303715884105727",
    "-170141183460469231731687303715884105728",
    "0.0",
    "-0.0",
    "1.5",
    "-2.25",
    "1.0e999",
    "-1.0e999",
    "zznan",
    "4.9e-324",
    "1.7976931348623157e308",
    "\"\"",
    "\"abc\"",
    "\"12\"",
    "\"-7\"",
    "\"1.5\"",
    "\"zz\"",
    "\"a\\nb\"",
    "zzlong",
    "||",
    "|ff|",
    "|x|",
    "|12 34 5|",
    "|00 ff 00|",
    "zzunaligned",
    "zzbig",
    "[ ]",
    "[ 1 2 3 ]",
    "[ \"a\" [ 1 ] nil ]",
    "[ 3 1 2 ]",
    "[ 1.5 \"a\" ]",
    "zzdeep",
    "{ }",
    "{ 1 \"a\" 2 \"b\" }",
    "{ 1 [ 1 ] }",
    "zztagged",
    "zzfmtstr",
    "zzfmtbig",
    "zzfmtzero",
    "zztagtag",
    "zzmixed",
    "zzmixedreal",
    "zzwide",
    // blanks that are not ASCII (one, two and three bytes long) in front of something else
    "\"\u{a0}z\"",
    "\"ff\u{3000}zz\"",
    "\"\u{2028}1\u{85}g\"",
    "\"\u{feff} 12\"",
];

/// prelude evaluated on every party: the values that have no literal
const PRELUDE: &[&str] = &[
    "1.0e999 1.0e999 - var zznan",
    "\"ééééééééééééééééééééééééééééééééééééééééééééééééééééééééééééééééééééééééééééééééé\" var zzlong",
    "|ff 0f 55 aa 12| open-bitstr 3 bits drop 21 bits var zzunaligned close-bitstr",
    "[ 0 1 2 3 4 5 6 7 8 9 10 11 12 13 14 15 16 17 18 19 20 21 22 23 24 25 26 27 28 29 30 31 32 33 34 35 36 37 38 39 ] >bitstr var zzbig",
    "[ ] 60 0 do 1 collect loop var zzdeep",
    "5 ^{ 1 \"t\" ^} var zztagged",
    "\"ff\" ^{ \"x\" \"#fmt\" ^} var zzfmtstr",
    "255 ^{ 18446744073709551615 \"#fmt\" ^} var zzfmtbig",
    "\"10\" ^{ 0 \"#fmt\" ^} var zzfmtzero",
    "7 ^{ 1 \"a\" ^} ^{ 2 \"b\" ^} var zztagtag",
    // more than twenty elements of types that do not compare with each other
    "[ 10 9 \"s1\" \"s10\" 2 0 0 7 0 2 11 0 11 8 7 \"s11\" 1 5 5 9 2 4 11 ] var zzmixed",
    "[ 1.0 zznan 2.0 0.5 zznan -1.0 3.0 zznan 0.0 -0.0 7.5 zznan 2.5 9.0 zznan 4.0 1.0e999 zznan -1.0e999 6.0 zznan 8.0 0.25 zznan 5.0 ] var zzmixedreal",
    // twenty bytes of input: reads of up to 128 bits at any bit offset stay inside it
    "[ 1 2 3 4 5 6 7 8 9 10 11 12 13 14 15 16 17 18 19 20 ] >bitstr var zzwide",
];

/// words whose argument is an allocation size: exercised only with modest sizes (the property's proviso)
const SIZED: &[&str] = &["int!", "uint!", "random-bits", "d2-resize"];
/// words that take something from the source text after them
const TRAILING: &[(&str, &str)] = &[
    (":", "zzw 1 ;"),
    ("var", "zzv"),
    ("!", "zzv"),
    // the parsing cursor and the output buffer are ordinary variables a script can store to
    ("!", "offset"),
    ("!", "input"),
    ("!", "output"),
    ("!", "output-length"),
    ("!", "big?"),
    ("!", "offset remain"),
    ("!", "offset 8 bits"),
    ("!", "offset dump"),
    ("!", "offset |ff| find"),
    ("!", "input 1 bits"),
    ("!", "input remain"),
    ("!", "output-length |ff| emit"),
    ("!", "output |ff| emit"),
    ("local", "zzl"),
    ("let", "zzv"),
    ("let", "[ zza zzb ]"),
    ("let", "[ zza & zzb ]"),
    ("let", "{ \"a\" zza }"),
    ("let", "\\ comment"),
    ("let", "^ zzt"),
    ("late", "zzlate"),
    ("const", "zzc"),
    ("see", "dup"),
    ("see", "zzv"),
    ("defined", "dup"),
    ("include", "\"ok.xeh\""),
    ("include", "\"bad.xeh\""),
    ("include", "\"missing.xeh\""),
    ("include", "\"err.xeh\""),
    ("include", "\"nonutf8.xeh\""),
    ("include", "\"self.xeh\""),
    ("include", "\"ping.xeh\""),
    ("require", "\"self.xeh\""),
    ("require", "\"ok.xeh\""),
    ("<name>", "zzn"),
    ("enum", "zzE : zzA : zzB endenum"),
    ("enum", "zzE 170141183460469231731687303715884105727 = zzA : zzB endenum"),
    ("enum", "zzE -170141183460469231731687303715884105728 = zzA : zzB endenum zzB"),
    ("enum", "zzE : zzA \"s\" = zzB : zzC endenum"),
    ("#(", "1 2 + #)"),
    ("#(", "1 0 / #)"),
    ("[", "1 2 ]"),
    ("{", "1 \"a\" }"),
    ("^{", "1 \"a\" ^}"),
    ("if", "1 else 2 then"),
    ("case", "1 of 2 endof drop endcase"),
    ("begin", "1 until"),
    ("do", "I drop loop"),
    ("foreach", "I drop loop"),
];

fn make_env(case: &Case) -> verif_env::Env {
    let mut env = verif_env::Env::default();
    env.stdout_fail_after = case.sink_fail_after;
    env.files.insert("ok.xeh".into(), Ok(b": zzinc 42 ; zzinc".to_vec()));
    env.files.insert("bad.xeh".into(), Ok(b"1 2 + zzunknown 3".to_vec()));
    env.files.insert("loop.xeh".into(), Ok(b"begin 1 repeat".to_vec()));
    env.files.insert("self.xeh".into(), Ok(b"1 drop include \"self.xeh\"".to_vec()));
    env.files.insert("ping.xeh".into(), Ok(b"include \"pong.xeh\"".to_vec()));
    env.files.insert("pong.xeh".into(), Ok(b": zzpong 1 ; include \"ping.xeh\"".to_vec()));
    env.files.insert("bin.dat".into(), Ok(vec![0, 1, 2, 255, 254, 0x41]));
    env.files.insert("nonutf8.xeh".into(), Ok(vec![0x31, 0x20, 0xff, 0xfe, 0x20, 0x32]));
    env.files.insert("err.xeh".into(), Err("simulated: input/output error".into()));
    env.exec_result = match case.exec_mode {
        0 => Some(Ok(b"out:".to_vec())),
        1 => Some(Err("simulated: permission denied".into())),
        _ => None,
    };
    env.entropy = case.entropy;
    env
}

fn count_env(env: &verif_env::Env, st: &mut Stats) {
    if env.stdout_failures > 0 {
        st.add("fault.stdout_sink_broke", env.stdout_failures as u64);
    }
    if env.file_failures > 0 {
        st.add("fault.virtual_file_error", env.file_failures as u64);
    }
    if env.file_reads > env.file_failures {
        st.add("probe.virtual_file_read", (env.file_reads - env.file_failures) as u64);
    }
    if env.execs > 0 {
        st.add("probe.stub_child_process_calls", env.execs as u64);
    }
    if env.entropy_draws > 0 {
        st.add("probe.simulated_entropy_bytes", env.entropy_draws as u64);
    }
    if !env.writes.is_empty() {
        st.add("probe.virtual_file_written", env.writes.len() as u64);
    }
}

fn run(case: &Case, st: &mut Stats) -> Outcome {
    verif_env::install(make_env(case));
    let r = run_inner(case, st);
    if let Some(env) = verif_env::uninstall() {
        count_env(&env, st);
    }
    r
}

fn run_inner(case: &Case, st: &mut Stats) -> Outcome {
    let mut xs = Xstate::boot().expect("boot");
    if case.d2 {
        xeh::d2_plugin::load(&mut xs).expect("d2");
    }
    xs.intercept_stdout(true);
    for p in PRELUDE {
        xs.set_insn_limit(Some(2000)).unwrap();
        let _ = xs.eval(p);
    }
    // the property's proviso: instruction and stack limits are always set
    xs.set_insn_limit(Some(500)).unwrap();
    xs.set_stack_limit(Some(256)).unwrap();
    let mut trips = 0u64;
    for call in &case.calls {
        let kind = match call {
            Call::Eval(_) => "eval",
            Call::Compile(_) => "compile",
            Call::Run => "run",
            Call::Next(_) => "next",
            Call::RNext(_) => "rnext",
            Call::ErrorInfo => "errorinfo",
            Call::Format => "format",
            Call::Disasm => "disasm",
            Call::SetInput(..) => "setinput",
            Call::InsnLimit(_) => "insnlimit",
            Call::StackLimit(_) => "stacklimit",
            Call::HeapLimit(_) => "heaplimit",
            Call::Recording(_) => "recording",
            Call::Clone => "clone",
            Call::InterceptStdout(_) => "interceptstdout",
            Call::InterceptOutput(_) => "interceptoutput",
            Call::ReadStdout => "readstdout",
        };
        st.event(kind, 0);
        let res: Option<Xresult> = match call {
            Call::Eval(s) => Some(xs.eval(&expand(s))),
            Call::Compile(s) => Some(xs.compile(&expand(s))),
            Call::Run => Some(xs.run()),
            Call::Next(k) => {
                let mut r = Ok(());
                for _ in 0..*k {
                    r = xs.next();
                    st.insns += 1;
                    if r.is_err() {
                        break;
                    }
                }
                Some(r)
            }
            Call::RNext(k) => {
                let mut r = Ok(());
                for _ in 0..*k {
                    r = xs.rnext();
                    if r.is_err() {
                        break;
                    }
                }
                Some(r)
            }
            Call::ErrorInfo => {
                let a = xs.pretty_error();
                let b = xs.last_error().map(|e| format!("{} {:?}", e, e));
                let c = xs.last_err_location().map(|l| format!("{:?}", l));
                let d = xs.location_from_current_ip().map(|l| format!("{:?}", l));
                st.log(&format!("{}", a.is_some() as u8 + b.is_some() as u8 + c.is_some() as u8 + d.is_some() as u8));
                if a.is_some() {
                    st.count("probe.error_formatted");
                }
                None
            }
            Call::Format => {
                let n = xs.data_depth();
                let mut total = 0usize;
                for i in 0..n.min(40) {
                    if let Some(c) = xs.get_data(i) {
                        let c = c.clone();
                        total += xs.format_cell(&c).map(|s| s.len()).unwrap_or(0);
                        total += xs.format_cell_safe(&c).map(|s| s.len()).unwrap_or(0);
                        total += format!("{:?}", c).len();
                    }
                }
                total += xs.var_list().len();
                total += xs.word_list().len();
                st.log_u64(total as u64);
                None
            }
            Call::Disasm => {
                let mut total = 0usize;
                for (ip, op) in xs.bytecode().iter().enumerate() {
                    // the text contains native addresses: only its existence is observed
                    total += (xs.fmt_opcode(ip, op).len() > 0) as usize;
                }
                st.log_u64(total as u64);
                None
            }
            Call::SetInput(bytes, a, b) => {
                let whole = Xbitstr::from(bytes.clone());
                let total = bytes.len() * 8;
                let to = (*b).min(total);
                let from = (*a).min(to);
                Some(xs.set_binary_input(whole.substr(from, to).unwrap_or_default()))
            }
            Call::InsnLimit(n) => Some(xs.set_insn_limit(Some(*n))),
            Call::StackLimit(n) => Some(xs.set_stack_limit(Some(*n))),
            Call::HeapLimit(n) => Some(xs.set_heap_limit(*n)),
            Call::Recording(on) => {
                xs.set_recording_enabled(*on);
                None
            }
            Call::Clone => {
                let c = xs.clone();
                xs = c;
                None
            }
            Call::InterceptStdout(on) => {
                xs.intercept_stdout(*on);
                None
            }
            Call::InterceptOutput(on) => Some(xs.intercept_output(*on)),
            Call::ReadStdout => {
                let s = xs.read_stdout();
                st.log_u64(s.map(|s| s.len()).unwrap_or(0) as u64);
                None
            }
        };
        if let Some(r) = res {
            match &r {
                Ok(()) => st.log("ok"),
                Err(e) => {
                    let k = err_kind(e);
                    st.log(&k);
                    // formatting any error value must also return
                    let text = format!("{} {:?}", e, e);
                    st.log_u64(text.len() as u64);
                    if let Xerr::ErrorMsg(m) = e {
                        if m.contains("limit reached") {
                            trips += 1;
                            if m.starts_with("insn") {
                                st.count("fault.insn_limit_trip");
                            } else if m.starts_with("stack") {
                                st.count("fault.stack_limit_trip");
                            } else {
                                st.count("fault.heap_limit_trip");
                            }
                        }
                    }
                }
            }
        }
    }
    st.nontrivial = trips > 0 || case.calls.len() >= 3;
    st.state(dump_hash(&xs.verif_dump()));
    Ok(())
}

fn words_of(d2: bool) -> Vec<String> {
    thread_local! {
        static W: std::cell::RefCell<Option<(Vec<String>, Vec<String>)>> = std::cell::RefCell::new(None);
    }
    W.with(|w| {
        if w.borrow().is_none() {
            let xs = Xstate::boot().expect("boot");
            let a: Vec<String> = xs.word_list().iter().map(|s| s.to_string()).collect();
            let mut xs2 = Xstate::boot().expect("boot");
            xeh::d2_plugin::load(&mut xs2).expect("d2");
            let b: Vec<String> = xs2.word_list().iter().map(|s| s.to_string()).collect();
            *w.borrow_mut() = Some((a, b));
        }
        let g = w.borrow();
        let (a, b) = g.as_ref().unwrap();
        if d2 {
            b.clone()
        } else {
            a.clone()
        }
    })
}

/// `@@pad:N@@` in a source stands for N spaces and `@@rep:N:TEXT@@` for N copies of TEXT: lines and
/// sources far longer than anything written out in a replay file (error columns beyond 65535)
fn expand(src: &str) -> String {
    if !src.contains("@@") {
        return src.to_string();
    }
    let mut out = String::new();
    let mut rest = src;
    while let Some(i) = rest.find("@@") {
        out.push_str(&rest[..i]);
        let after = &rest[i + 2..];
        match after.find("@@") {
            Some(j) => {
                let body = &after[..j];
                let mut parts = body.splitn(3, ':');
                match (parts.next(), parts.next(), parts.next()) {
                    (Some("pad"), Some(n), None) => {
                        let n: usize = n.parse().unwrap_or(0).min(200_000);
                        out.extend(std::iter::repeat(' ').take(n));
                    }
                    (Some("rep"), Some(n), Some(text)) => {
                        let n: usize = n.parse().unwrap_or(0).min(100_000);
                        for _ in 0..n {
                            out.push_str(text);
                        }
                    }
                    _ => {
                        out.push_str("@@");
                        out.push_str(body);
                        out.push_str("@@");
                    }
                }
                rest = &after[j + 2..];
            }
            None => {
                out.push_str("@@");
                rest = after;
            }
        }
    }
    out.push_str(rest);
    out
}

/// one word applied to 0..3 arguments drawn from the value classes
fn sweep_source(rng: &mut Rng, words: &[String]) -> String {
    let w = rng.pick(words).clone();
    let arity = rng.below(4);
    let mut toks: Vec<String> = Vec::new();
    if SIZED.contains(&w.as_str()) {
        // allocation-size positions get modest sizes
        for _ in 0..arity.saturating_sub(1) {
            toks.push((*rng.pick(VALUES)).to_string());
        }
        toks.push(format!("{}", rng.below(200)));
        if w == "d2-resize" {
            toks.push(format!("{}", rng.below(64)));
        }
        toks.push(w);
        return toks.join(" ");
    }
    for _ in 0..arity {
        toks.push((*rng.pick(VALUES)).to_string());
    }
    let trailing: Vec<&(&str, &str)> = TRAILING.iter().filter(|(n, _)| *n == w).collect();
    toks.push(w.clone());
    if !trailing.is_empty() {
        toks.push(rng.pick(&trailing).1.to_string());
    } else if rng.chance(1, 6) {
        // something after it anyway: a literal, a comment, nothing
        toks.push((*rng.pick(&["zzname", "5", "\\ c", "\\( c \\)", "\"s\"", "]", "}", "&", "^"])).to_string());
    }
    toks.join(" ")
}

/// token soup: balanced fragments, raw UTF-8, value classes, dictionary words
fn soup_source(rng: &mut Rng, words: &[String]) -> String {
    let n = 1 + rng.below(14);
    let mut toks: Vec<String> = Vec::new();
    const RAW: &[&str] = &[
        "é", "日本", "\u{0}", "\u{feff}", "\"", "|", "\\", "\\(", "“x”", "0x", "0b", "-", "+", "1e5", "1_", "_", ".", "0x_f", "00012", "|zz|", "#(", "#)", "~)", "^{", "^}", "&",
        "^", ";", ":", "]", "[", "{", "}", "then", "else", "loop", "\t", "\r\n",
    ];
    for _ in 0..n {
        match rng.below(10) {
            0..=3 => toks.push((*rng.pick(VALUES)).to_string()),
            4..=6 => {
                let w = rng.pick(words).clone();
                if SIZED.contains(&w.as_str()) {
                    toks.push(format!("{}", rng.below(100)));
                    if w == "d2-resize" {
                        toks.push(format!("{}", rng.below(32)));
                    }
                }
                toks.push(w);
            }
            7 => toks.push((*rng.pick(RAW)).to_string()),
            8 => {
                let mut f = Features::all();
                f.errors = 30;
                f.emit = true;
                f.immediates = true;
                let mut g = Gen::new(rng, f, GenEnv::default(), "c");
                let k = 2 + g.rng.below(12);
                let (s, _) = g.source(k, &[]);
                toks.push(s);
            }
            _ => {
                let t = rng.pick(TRAILING);
                toks.push(format!("{} {}", t.0, t.1));
            }
        }
    }
    let sep = *rng.pick(&[" ", " ", "\n", "\t"]);
    toks.join(sep)
}

fn gen_source(rng: &mut Rng, words: &[String]) -> String {
    // rarely (they cost a millisecond each): lines and sources far longer than usual
    if rng.chance(1, 400) {
        return (*rng.pick(&[
            "@@pad:70000@@zzunknownword",
            // long lines of multi-byte characters, in the three byte phases
            "@@rep:3000:\u{e9} @@zzunknownword",
            "x@@rep:3000:\u{e9} @@zzunknownword",
            "xy@@rep:3000:\u{e9} @@zzunknownword",
            "@@rep:2500:\u{65e5}\u{672c} @@1 0 /",
            "\"@@rep:3000:\u{e9}@@\" zzunknownword",
            "@@rep:40000:1 @@nosuchword",
            "@@pad:65535@@1 0 /",
            "\"@@pad:66000@@\" zzunknownword",
            "@@rep:3000:\n@@@@pad:300@@] ",
        ]))
        .to_string();
    }
    if rng.chance(1, 60) {
        // a long vector of values that do not all compare with each other, sorted
        let n = 21 + rng.below(30);
        let mut toks: Vec<String> = vec!["[".into()];
        for _ in 0..n {
            toks.push(match rng.below(10) {
                0..=4 => format!("{}", rng.below(13)),
                5..=6 => format!("\"s{}\"", rng.below(13)),
                7 => (*rng.pick(&["1.5", "0.0", "-0.0", "zznan", "2.5"])).to_string(),
                8 => (*rng.pick(&["nil", "true", "|ff|", "[ 1 ]"])).to_string(),
                // tagged values: compared by what they wrap
                _ => match rng.below(4) {
                    0 => format!("{} ^hex", rng.below(13)),
                    1 => "zztagged".to_string(),
                    2 => format!("\"s{}\" {{ 1 \"a\" }} with-tags", rng.below(13)),
                    _ => format!("{}", rng.below(3)),
                },
            });
        }
        toks.push("]".into());
        toks.push((*rng.pick(&["sort", "sort", "sort drop", "dup sort equal?", "sort reverse sort"])).to_string());
        return toks.join(" ");
    }
    match rng.below(10) {
        0..=4 => sweep_source(rng, words),
        5..=7 => soup_source(rng, words),
        8 => {
            // a whole generated program: deep multi-step sequences (orphan slices then appends,
            // nested inputs, user immediates, every read and pack word) that a token soup rarely forms
            let mut f = Features::swarm(rng);
            f.errors = *rng.pick(&[0, 30]);
            f.immediates = rng.chance(1, 2);
            let mut g = Gen::new(rng, f, GenEnv::default(), "g");
            let k = 4 + g.rng.below(40);
            g.source(k, &[]).0
        }
        _ => (*rng.pick(&[
            "begin 1 repeat",
            "begin [ 1 2 3 ] unbox repeat",
            ": zzr zzr ; zzr",
            "\"ab\" begin dup 2 collect concat dup length 4000 > until",
            "1000 0 do I loop",
            "zzwide open-bitstr big 3 bits drop 126 uint",
            "zzwide open-bitstr big 1 bits drop 128 int",
            "zzwide open-bitstr little 7 bits drop 125 uint",
            "zzwide open-bitstr 5 bits drop 123 int 64 float",
            "zzmixed sort",
            "zzmixedreal sort",
            // the canvas plugin (unknown words unless it is loaded): indices and sizes at the edges
            "4 4 d2-resize 0 18446744073709551615 d2-data",
            "3 5 d2-resize 18446744073709551615 0 d2-data",
            "4 4 d2-resize 7 18446744073709551615 18446744073709551615 d2-data!",
            "2 2 d2-resize 9223372036854775807 9223372036854775807 d2-data",
            "0 0 d2-resize 0 0 d2-data",
            "1 1 d2-resize 255 d2-color! 0 0 d2-data! d2-capture-rgba",
            "4 4 d2-resize [ 1 2 3 ] d2-palette! 300 d2-color! 3 3 d2-data!",

            "include \"loop.xeh\"",
            "\"bin.dat\" read-all",
            "|ff 00| \"out.bin\" write-all",
            "[ 1 2 ] \"cat\" exec-piped",
            "random",
            "17 random-bits",
            "1 exit",
            "",
            "   ",
            "\\ only a comment",
        ]))
        .to_string(),
    }
}

impl Engine for Chaos {
    type Case = Case;
    const NAME: &'static str = "chaos";
    const PROP: &'static str = "C08";
    const RULE: &'static str = "one case = (environment: sink failure point, stub child mode, entropy; sequence of up to 30 API calls: eval / compile / run / next / rnext / error formatting / value formatting / disassembly / set input / limit setters / recording toggle / clone / output interception). Sources are a word applied to 0..3 arguments from 57 value classes (sweep corpus), token soups, or stress programs. Distinct = distinct call-kind sequences; non-trivial = at least 3 calls or a limit trip.";
    const REAL: &'static str = "the whole xeh library: lexer, compiler, VM, every dictionary word of boot() and the d2 plugin, error and value formatting, fmt_opcode; in the release and the overflow-checked build";
    const STUB: &'static str = "process stdout (fallible sink), file system (virtual files incl. missing / unreadable / non-UTF-8), child processes (stub), OS entropy (PRNG) through the verif_env seam; terminal and line editor are not involved";

    fn generate(rng: &mut Rng, _tier: Tier) -> Case {
        let d2 = rng.chance(1, 3);
        let words = words_of(d2);
        let sink_fail_after = match rng.below(4) {
            0 => Some(0),
            1 => Some(rng.below(40)),
            _ => None,
        };
        let n = 1 + rng.below(30);
        let mut calls = Vec::new();
        // Themed cases: a small pool of calls that belong together, drawn over and over, so that
        // the multi-step conjunctions a uniform draw over everything practically never forms do
        // occur. Theme: user-defined immediate words that consume or produce data at build time, in
        // sources that are then rejected (their effects stay: the listed C10 finding), interleaved
        // with stack shuffles under recording and with reverse steps.
        let themed = rng.chance(1, 40);
        for _ in 0..n {
            if themed {
                const EVALS: &[&str] = &[
                    ": zzeat immediate drop ;",
                    ": zzeat2 immediate drop drop ;",
                    ": zzgive immediate 7 8 ;",
                    ": zzturn immediate swap ;",
                    "zzeat zzunknownword",
                    "zzeat2 zzunknownword",
                    "zzgive zzunknownword",
                    "zzturn ]",
                    "zzeat",
                    "zzgive",
                    "10 20 swap",
                    "1 2 3 rot",
                    "5 6 over",
                    "4 dup",
                    "drop",
                    "[ 1 2 ] unbox swap",
                    "1 2 3 3 collect",
                    "#( zzeat #)",
                    "9 var zzv1 zzv1 1 + ! zzv1",
                ];
                let c = match rng.below(12) {
                    0..=6 => Call::Eval((*rng.pick(EVALS)).to_string()),
                    7 => Call::Compile((*rng.pick(EVALS)).to_string()),
                    8 | 9 => Call::RNext(1 + rng.small(10)),
                    10 => Call::Next(1 + rng.small(6)),
                    _ => {
                        if rng.chance(1, 3) {
                            Call::Run
                        } else {
                            Call::Recording(true)
                        }
                    }
                };
                calls.push(c);
                continue;
            }
            let c = match rng.below(40) {
                0..=17 => Call::Eval(gen_source(rng, &words)),
                18..=21 => Call::Compile(gen_source(rng, &words)),
                22..=23 => Call::Run,
                24..=25 => Call::Next(1 + rng.small(20)),
                26..=27 => Call::RNext(1 + rng.small(10)),
                28..=29 => Call::ErrorInfo,
                30 => Call::Format,
                31 => Call::Disasm,
                32 => {
                    let k = rng.small(20);
                    let b = random_bytes(rng, k);
                    let total = b.len() * 8;
                    let a = rng.below(total + 1);
                    Call::SetInput(b, a, a + rng.below(total - a + 1))
                }
                33 => Call::InsnLimit(*rng.pick(&[0usize, 1, 7, 50, 500, 2000])),
                34 => Call::StackLimit(*rng.pick(&[0usize, 1, 3, 8, 64, 256])),
                35 => Call::HeapLimit(*rng.pick(&[None, Some(0), Some(20), Some(1000)])),
                36 => Call::Recording(rng.chance(2, 3)),
                37 => Call::Clone,
                38 => {
                    if rng.chance(1, 2) {
                        Call::InterceptStdout(rng.chance(1, 2))
                    } else {
                        Call::InterceptOutput(rng.chance(1, 2))
                    }
                }
                _ => Call::ReadStdout,
            };
            calls.push(c);
        }
        Case { d2, sink_fail_after, exec_mode: rng.below(3), entropy: rng.next_u64() >> 1, calls }
    }

    fn execute(case: &Case, st: &mut Stats) -> Outcome {
        run(case, st)
    }

    fn shrink(case: &Case) -> Vec<Case> {
        let mut out = Vec::new();
        let n = case.calls.len();
        let mut size = n / 2;
        while size >= 1 {
            let mut start = 0;
            while start < n {
                let mut c = case.clone();
                c.calls.drain(start..(start + size).min(n));
                out.push(c);
                start += size;
            }
            size /= 2;
        }
        for (i, call) in case.calls.iter().enumerate() {
            match call {
                Call::Eval(s) | Call::Compile(s) => {
                    for s2 in shrink_source(s) {
                        let mut c = case.clone();
                        c.calls[i] = if matches!(call, Call::Eval(_)) { Call::Eval(s2) } else { Call::Compile(s2) };
                        out.push(c);
                    }
                    if matches!(call, Call::Compile(_)) {
                        let mut c = case.clone();
                        c.calls[i] = Call::Eval(s.clone());
                        out.push(c);
                    }
                }
                Call::Next(k) if *k > 1 => {
                    let mut c = case.clone();
                    c.calls[i] = Call::Next(k / 2);
                    out.push(c);
                }
                Call::RNext(k) if *k > 1 => {
                    let mut c = case.clone();
                    c.calls[i] = Call::RNext(k / 2);
                    out.push(c);
                }
                _ => {}
            }
        }
        if case.d2 {
            let mut c = case.clone();
            c.d2 = false;
            out.push(c);
        }
        if case.sink_fail_after.is_some() {
            let mut c = case.clone();
            c.sink_fail_after = None;
            out.push(c);
        }
        out
    }

    fn to_json(c: &Case) -> Json {
        let calls: Vec<Json> = c
            .calls
            .iter()
            .map(|x| match x {
                Call::Eval(s) => crate::jobj! {"call" => "eval", "src" => s.clone()},
                Call::Compile(s) => crate::jobj! {"call" => "compile", "src" => s.clone()},
                Call::Run => crate::jobj! {"call" => "run"},
                Call::Next(k) => crate::jobj! {"call" => "next", "k" => *k},
                Call::RNext(k) => crate::jobj! {"call" => "rnext", "k" => *k},
                Call::ErrorInfo => crate::jobj! {"call" => "error_info"},
                Call::Format => crate::jobj! {"call" => "format"},
                Call::Disasm => crate::jobj! {"call" => "disasm"},
                Call::SetInput(b, a, z) => crate::jobj! {"call" => "set_input", "bytes" => hex_encode(b), "from" => *a, "to" => *z},
                Call::InsnLimit(n) => crate::jobj! {"call" => "insn_limit", "n" => *n},
                Call::StackLimit(n) => crate::jobj! {"call" => "stack_limit", "n" => *n},
                Call::HeapLimit(n) => crate::jobj! {"call" => "heap_limit", "n" => *n},
                Call::Recording(b) => crate::jobj! {"call" => "recording", "on" => *b},
                Call::Clone => crate::jobj! {"call" => "clone"},
                Call::InterceptStdout(b) => crate::jobj! {"call" => "intercept_stdout", "on" => *b},
                Call::InterceptOutput(b) => crate::jobj! {"call" => "intercept_output", "on" => *b},
                Call::ReadStdout => crate::jobj! {"call" => "read_stdout"},
            })
            .collect();
        crate::jobj! {
            "d2" => c.d2,
            "sink_fail_after" => c.sink_fail_after,
            "exec_mode" => c.exec_mode,
            "entropy" => c.entropy,
            "calls" => Json::Arr(calls)
        }
    }

    fn from_json(j: &Json) -> Result<Case, String> {
        let mut calls = Vec::new();
        for c in j.f_arr("calls")? {
            calls.push(match c.f_str("call")?.as_str() {
                "eval" => Call::Eval(c.f_str("src")?),
                "compile" => Call::Compile(c.f_str("src")?),
                "run" => Call::Run,
                "next" => Call::Next(c.f_usize("k")?),
                "rnext" => Call::RNext(c.f_usize("k")?),
                "error_info" => Call::ErrorInfo,
                "format" => Call::Format,
                "disasm" => Call::Disasm,
                "set_input" => Call::SetInput(hex_decode(&c.f_str("bytes")?)?, c.f_usize("from")?, c.f_usize("to")?),
                "insn_limit" => Call::InsnLimit(c.f_usize("n")?),
                "stack_limit" => Call::StackLimit(c.f_usize("n")?),
                "heap_limit" => Call::HeapLimit(c.f_opt_usize("n")?),
                "recording" => Call::Recording(c.f_bool("on")?),
                "clone" => Call::Clone,
                "intercept_stdout" => Call::InterceptStdout(c.f_bool("on")?),
                "intercept_output" => Call::InterceptOutput(c.f_bool("on")?),
                "read_stdout" => Call::ReadStdout,
                other => return Err(format!("unknown call {}", other)),
            });
        }
        Ok(Case {
            d2: j.f_bool("d2")?,
            sink_fail_after: j.f_opt_usize("sink_fail_after")?,
            exec_mode: j.f_usize("exec_mode")?,
            entropy: j.f_int("entropy")? as u64,
            calls,
        })
    }
}
