//! C06 — the parsing cursor: a read returns exactly the requested bits and advances that far.
//! xeh's stream-reading surface: a cursor over an input bit-string that can end at any bit, with
//! suspended inputs stacked by `open-bitstr`. One interpreter, driven word by word; the model is
//! a stack of (bits, offset). Faults: EOF at an arbitrary bit (inputs of arbitrary bit length and
//! alignment), the result push failing after the cursor logic ran (stack limit armed below the
//! word), reads issued inside a meta block (variable access refused), arguments that are out of
//! range, huge, negative or of the wrong type.
//! Oracle per step: Ok => the returned bits are model bits [offset, offset+n) and the offset moved
//! by exactly n; Err => input, offset, suspended inputs and the data stack below the word's
//! arguments are untouched. Always: start <= offset <= end, remain == end - offset, close-bitstr
//! restores the previous (input, offset) in LIFO order. A panic is a violation.
use crate::core::{guard, Engine, Outcome, Stats, Tier, Violation};
use crate::json::Json;
use crate::rng::Rng;
use crate::xutil::*;
use xeh::prelude::*;
use xeh::state::verif::verif_render_cell;

#[derive(Clone, Debug, PartialEq)]
pub struct Step {
    /// literal arguments pushed before the word, as source text
    pub args: Vec<String>,
    pub word: String,
    /// arm a stack limit this many slots below the stack as it is once the arguments are pushed
    /// (so that the word's own result push fails after its cursor logic has run)
    pub stackfail: Option<usize>,
    pub in_meta: bool,
}

#[derive(Clone, Debug)]
pub struct Case {
    /// backing bytes of the input and the bit range of it that is installed as the binary input
    pub bytes: Vec<u8>,
    pub from_bit: usize,
    pub to_bit: usize,
    pub steps: Vec<Step>,
    /// this many further bytes of a fixed pattern follow `bytes` (inputs of a megabyte and more
    /// without a megabyte of hex in the case file); `to_bit` counts them
    pub pad_bytes: usize,
}

fn full_bytes(case: &Case) -> Vec<u8> {
    let mut v = case.bytes.clone();
    v.reserve(case.pad_bytes);
    for i in 0..case.pad_bytes {
        v.push(((i * 31 + 7) % 251) as u8);
    }
    v
}

pub struct Cursor;

#[derive(Clone, Debug)]
struct Cur {
    bits: Vec<bool>,
    rel: usize,
}

#[derive(Clone, Debug, PartialEq)]
struct Actual {
    bits: Vec<bool>,
    start: usize,
    end: usize,
    offset: i128,
    stash: String,
    stack: Vec<String>,
}

fn actual(xs: &Xstate) -> Result<Actual, Violation> {
    let inp = xs.get_var_value("input").map_err(|e| Violation::new("C06.state", "input-var", format!("input variable unreadable: {:?}", e)))?;
    let bs = match inp.value() {
        Cell::Bitstr(b) => b.clone(),
        other => return Err(Violation::new("C06.state", "input-type", format!("the input variable holds {}", verif_render_cell(other)))),
    };
    let off = xs.get_var_value("offset").map_err(|e| Violation::new("C06.state", "offset-var", format!("offset variable unreadable: {:?}", e)))?;
    let offset = match off.value() {
        Cell::Int(i) => *i,
        other => return Err(Violation::new("C06.state", "offset-type", format!("the offset variable holds {}", verif_render_cell(other)))),
    };
    let d = xs.verif_dump();
    Ok(Actual {
        bits: bs.bits().map(|x| x == 1).collect(),
        start: bs.start(),
        end: bs.end(),
        offset,
        stash: d.heap.get(3).cloned().unwrap_or_default(),
        stack: d.data,
    })
}

fn show(m: &[bool]) -> String {
    m.iter().map(|b| if *b { '1' } else { '0' }).collect()
}

fn parse_int(s: &str) -> Option<i128> {
    s.parse::<i128>().ok()
}

/// bits denoted by a `|..|` literal
fn lit_bits(s: &str) -> Option<Vec<bool>> {
    let inner = s.strip_prefix('|')?.strip_suffix('|')?;
    let mut v = Vec::new();
    for c in inner.chars() {
        if c.is_ascii_whitespace() {
            continue;
        }
        if let Some(x) = c.to_digit(16) {
            for i in (0..4).rev() {
                v.push((x >> i) & 1 == 1);
            }
        } else if c == 'x' {
            v.push(true);
        } else if c == '.' {
            v.push(false);
        } else {
            return None;
        }
    }
    Some(v)
}

fn rendered_bits(s: &str) -> Option<Vec<bool>> {
    let inner = s.strip_prefix('|')?.strip_suffix('|')?;
    Some(inner.chars().map(|c| c == '1').collect())
}

fn fixed_width(word: &str) -> Option<(usize, char)> {
    let w = word.trim_end_matches("le").trim_end_matches("be");
    let kind = w.chars().next()?;
    if !matches!(kind, 'u' | 'i' | 'f') {
        return None;
    }
    let n: usize = w[1..].parse().ok()?;
    if matches!(n, 8 | 16 | 32 | 64) {
        Some((n, kind))
    } else {
        None
    }
}

struct Sim {
    xs: Xstate,
    model: Vec<Cur>,
}

fn vio(oracle: &str, sig: String, step: &Step, detail: String) -> Violation {
    Violation::new(oracle, sig, format!("`{} {}`{}{}: {}", step.args.join(" "), step.word, if step.in_meta { " inside #( #)" } else { "" }, if step.stackfail.is_some() { " with the result push failing" } else { "" }, detail))
}

impl Sim {
    fn new(case: &Case) -> Sim {
        let mut xs = Xstate::boot().expect("boot");
        xs.intercept_stdout(true);
        let all = full_bytes(case);
        let total = all.len() * 8;
        let whole = Xbitstr::from(all);
        let to = case.to_bit.min(total);
        let from = case.from_bit.min(to);
        let input = whole.substr(from, to).expect("input range");
        let bits: Vec<bool> = input.bits().map(|x| x == 1).collect();
        xs.set_binary_input(input).expect("set_binary_input");
        // below the installed input sits the empty input the interpreter booted with
        Sim { xs, model: vec![Cur { bits: Vec::new(), rel: 0 }, Cur { bits, rel: 0 }] }
    }

    fn remain(&self) -> usize {
        let c = self.model.last().unwrap();
        c.bits.len() - c.rel
    }

    fn apply(&mut self, step: &Step, st: &mut Stats) -> Outcome {
        self.xs.set_insn_limit(Some(200)).unwrap();
        let before_args = actual(&self.xs)?;
        // 1. arguments (never limited)
        let mut arg_src = step.args.join(" ");
        if step.in_meta {
            arg_src.clear();
        }
        if !arg_src.is_empty() {
            if let Err(e) = self.xs.eval(&arg_src) {
                return Err(vio("C06.harness", "args".into(), step, format!("pushing the arguments failed: {:?}", e)));
            }
        }
        let before = actual(&self.xs)?;
        let _ = before_args;
        // how many stack items the word itself consumes (whether they were pushed by this step or earlier)
        let arity = match step.word.as_str() {
            "bits" | "bytes" | "uint" | "int" | "float" | "magic" | "seek" | "find" | "open-bitstr" | "dup" => 1,
            _ => 0,
        };
        let nargs = if step.in_meta { 0 } else { arity.min(before.stack.len()) };
        // 2. the word, optionally with the fault armed
        let src = if step.in_meta { format!("#( {} {} #)", step.args.join(" "), step.word) } else { step.word.clone() };
        if let Some(k) = step.stackfail {
            let lim = before.stack.len().saturating_sub(k);
            self.xs.set_stack_limit(Some(lim)).unwrap();
        }
        let res = guard(|| self.xs.eval(&src));
        self.xs.set_stack_limit(None).unwrap();
        let res = match res {
            Ok(r) => r,
            Err(mut v) => {
                v.detail = format!("`{} {}`: {}", step.args.join(" "), step.word, v.detail);
                return Err(v);
            }
        };
        st.event(&step.word, if res.is_ok() { 1 } else { 0 });
        st.log(&render_result(&res));
        let after = actual(&self.xs)?;
        // invariants that always hold
        if after.offset < after.start as i128 || after.offset > after.end as i128 {
            return Err(vio("C06.bounds", "offset-outside-input".into(), step, format!("offset {} outside the input {}..{}", after.offset, after.start, after.end)));
        }
        let base = before.stack.len() - nargs;
        let tripped = is_limit_err(&res, Some("stack"));
        if tripped {
            st.count("fault.result_push_failed");
        }
        if step.in_meta && res.is_err() {
            st.count("fault.read_inside_meta_refused");
        }
        let cur = self.model.last().unwrap().clone();
        let w = step.word.as_str();
        match &res {
            Err(e) => {
                st.count("probe.failed_operation");
                if let Xerr::ReadError { .. } = e {
                    st.count("fault.read_past_end_of_input");
                }
                // input, offset, suspended inputs, and the stack below the arguments: untouched
                if after.bits != before.bits || after.start != before.start || after.end != before.end {
                    return Err(vio("C06.failed", format!("{}:input", kind_of(w)), step, format!("failed with {} but the input changed", err_kind(e))));
                }
                if after.offset != before.offset {
                    return Err(vio(
                        "C06.failed",
                        format!("{}:offset{}", kind_of(w), if tripped { ":push-failed" } else { "" }),
                        step,
                        format!("failed with {} but the offset moved from {} to {}", err_kind(e), before.offset, after.offset),
                    ));
                }
                if after.stash != before.stash {
                    return Err(vio("C06.failed", format!("{}:stash", kind_of(w)), step, format!("failed with {} but the suspended inputs changed", err_kind(e))));
                }
                if after.stack.len() < base || after.stack[..base] != before.stack[..base] {
                    return Err(vio(
                        "C06.failed",
                        format!("{}:stack", kind_of(w)),
                        step,
                        format!("failed with {} but the stack below its arguments changed: {:?} -> {:?}", err_kind(e), before.stack, after.stack),
                    ));
                }
                // what must not fail: exact in-range requests of a valid type
                if !step.in_meta && step.stackfail.is_none() {
                    if let Some(why) = self.must_succeed(step, &cur) {
                        return Err(vio("C06.refused", kind_of(w).to_string(), step, format!("{} but it failed with {}", why, render_err(e))));
                    }
                }
                return Ok(());
            }
            Ok(()) => {}
        }
        st.count("probe.successful_operation");
        // successful operation: what it may have done depends on the word
        let top = after.stack.last().cloned();
        let pushed_one = after.stack.len() == base + 1 && after.stack[..base] == before.stack[..base];
        let same_input = after.bits == before.bits && after.start == before.start && after.end == before.end && after.stash == before.stash;
        let moved = (after.offset - before.offset) as i128;
        let arg0 = step.args.last().and_then(|s| parse_int(s));
        let req_bits: Option<i128> = match w {
            "bits" | "uint" | "int" | "float" => arg0,
            "bytes" => arg0.map(|n| n.checked_mul(8).unwrap_or(i128::MAX)),
            _ => fixed_width(w).map(|(n, _)| n as i128),
        };
        match w {
            "bits" | "bytes" | "uint" | "int" | "float" => {
                let n = match req_bits {
                    Some(n) if n >= 0 => n,
                    _ => return Err(vio("C06.read", format!("{}:bad-arg-accepted", w), step, "succeeded although its argument is not a non-negative integer".into())),
                };
                self.check_read(step, &cur, &before, &after, n, moved, same_input, pushed_one, top, w == "bits" || w == "bytes", st)?;
                self.model.last_mut().unwrap().rel += n as usize;
            }
            "magic" => {
                let pat = step.args.last().and_then(|s| lit_bits(s));
                let pat = match pat {
                    Some(p) => p,
                    None => return Err(vio("C06.read", "magic:bad-arg-accepted".into(), step, "succeeded although its argument is not a bit-string".into())),
                };
                let n = pat.len() as i128;
                self.check_read(step, &cur, &before, &after, n, moved, same_input, pushed_one, top.clone(), true, st)?;
                if cur.bits[cur.rel..cur.rel + pat.len()] != pat[..] {
                    return Err(vio("C06.read", "magic:mismatch-accepted".into(), step, format!("succeeded but the input holds {} there", show(&cur.bits[cur.rel..cur.rel + pat.len()]))));
                }
                self.model.last_mut().unwrap().rel += pat.len();
            }
            "seek" => {
                let pos = arg0.unwrap_or(-1);
                if !same_input || after.stack.len() != base || after.stack[..base] != before.stack[..base] {
                    return Err(vio("C06.seek", "side-effect".into(), step, "changed more than the offset".into()));
                }
                if after.offset != pos {
                    return Err(vio("C06.seek", "wrong-offset".into(), step, format!("succeeded but the offset is {}", after.offset)));
                }
                self.model.last_mut().unwrap().rel = (pos - before.start as i128) as usize;
            }
            "remain" => {
                if !same_input || moved != 0 || !pushed_one {
                    return Err(vio("C06.remain", "side-effect".into(), step, "moved the cursor or disturbed the stack".into()));
                }
                let want = format!("{}", before.end as i128 - before.offset);
                if top.as_deref() != Some(&want) {
                    return Err(vio("C06.remain", "value".into(), step, format!("pushed {:?} but end - offset is {}", top, want)));
                }
            }
            "find" => {
                if !same_input || moved != 0 || !pushed_one {
                    return Err(vio("C06.find", "side-effect".into(), step, "moved the cursor or disturbed the stack".into()));
                }
                let pat = step.args.last().and_then(|s| lit_bits(s)).unwrap_or_default();
                let rest = &cur.bits[cur.rel..];
                let mut want = "nil".to_string();
                if pat.len() % 8 == 0 && rest.len() % 8 == 0 {
                    let pb: Vec<u8> = pat.chunks(8).map(|c| c.iter().fold(0u8, |a, b| (a << 1) | *b as u8)).collect();
                    let rb: Vec<u8> = rest.chunks(8).map(|c| c.iter().fold(0u8, |a, b| (a << 1) | *b as u8)).collect();
                    if pb.is_empty() {
                        want = format!("{}", before.offset);
                    } else if rb.len() >= pb.len() {
                        for i in 0..=(rb.len() - pb.len()) {
                            if rb[i..i + pb.len()] == pb[..] {
                                want = format!("{}", before.offset + (i as i128) * 8);
                                break;
                            }
                        }
                    }
                }
                if top.as_deref() != Some(&want) {
                    return Err(vio("C06.find", "value".into(), step, format!("pushed {:?} but the first match is at {}", top, want)));
                }
                st.count(if want == "nil" { "probe.find_no_match" } else { "probe.find_match" });
            }
            "nulbytestr" | "cstr" => {
                let rest = &cur.bits[cur.rel..];
                let mut len = 0usize;
                let mut text = String::new();
                for c in rest.chunks(8) {
                    len += c.len();
                    let v = c.iter().fold(0u32, |a, b| (a << 1) | *b as u32);
                    if v == 0 {
                        break;
                    }
                    text.push(char::from_u32(v).unwrap_or('?'));
                }
                if !same_input || !pushed_one || moved != len as i128 {
                    return Err(vio("C06.read", format!("{}:advance", w), step, format!("moved the offset by {} for a string of {} bits", moved, len)));
                }
                if w == "nulbytestr" {
                    let got = top.as_deref().and_then(rendered_bits);
                    if got.as_deref() != Some(&rest[..len]) {
                        return Err(vio("C06.read", "nulbytestr:bits".into(), step, format!("returned {:?} but the input holds {}", top, show(&rest[..len]))));
                    }
                } else if top.as_deref() != Some(&format!("{:?}", text)) {
                    return Err(vio("C06.read", "cstr:text".into(), step, format!("returned {:?} but the input spells {:?}", top, text)));
                }
                self.model.last_mut().unwrap().rel += len;
            }
            "open-bitstr" => {
                let arg = before.stack.last().cloned().unwrap_or_default();
                let bits = match rendered_bits(&arg) {
                    Some(b) if arg.starts_with('|') => b,
                    _ => return Err(vio("C06.open", "bad-arg-accepted".into(), step, format!("succeeded on {}", arg))),
                };
                if after.bits != bits || after.offset != after.start as i128 {
                    return Err(vio("C06.open", "state".into(), step, format!("the new input is {} at offset {} (start {})", show(&after.bits), after.offset, after.start)));
                }
                if after.stack.len() != base || after.stack[..base] != before.stack[..base] {
                    return Err(vio("C06.open", "stack".into(), step, "disturbed the stack".into()));
                }
                if after.start % 8 != 0 {
                    st.count("probe.opened_unaligned_input");
                }
                self.model.push(Cur { bits, rel: 0 });
                if self.model.len() >= 4 {
                    st.count("probe.three_inputs_suspended");
                }
            }
            "close-bitstr" => {
                if self.model.len() < 2 {
                    return Err(vio("C06.close", "nothing-open".into(), step, "succeeded with no suspended input".into()));
                }
                self.model.pop();
                let prev = self.model.last().unwrap();
                if after.bits != prev.bits || after.offset - after.start as i128 != prev.rel as i128 {
                    return Err(vio(
                        "C06.close",
                        "lifo".into(),
                        step,
                        format!(
                            "restored input {} at relative offset {} but the suspended one was {} at {}",
                            show(&after.bits),
                            after.offset - after.start as i128,
                            show(&prev.bits),
                            prev.rel
                        ),
                    ));
                }
                if after.stack != before.stack {
                    return Err(vio("C06.close", "stack".into(), step, "disturbed the stack".into()));
                }
                st.count("probe.close_restored_previous_input");
            }
            "big" | "little" => {
                if !same_input || moved != 0 || after.stack != before.stack {
                    return Err(vio("C06.order", "side-effect".into(), step, "moved the cursor or disturbed the stack".into()));
                }
            }
            _ => {
                if let Some((n, _)) = fixed_width(w) {
                    self.check_read(step, &cur, &before, &after, n as i128, moved, same_input, pushed_one, top, false, st)?;
                    self.model.last_mut().unwrap().rel += n;
                } else {
                    // stack filler etc.: must not touch the cursor
                    if !same_input || moved != 0 {
                        return Err(vio("C06.other", "side-effect".into(), step, "moved the cursor".into()));
                    }
                }
            }
        }
        // the model and the interpreter agree on where the cursor is
        let m = self.model.last().unwrap();
        if after.bits != m.bits || after.offset - after.start as i128 != m.rel as i128 {
            return Err(vio(
                "C06.cursor",
                kind_of(w).to_string(),
                step,
                format!("cursor at relative offset {} of {} bits, expected {} of {}", after.offset - after.start as i128, after.bits.len(), m.rel, m.bits.len()),
            ));
        }
        if m.rel == m.bits.len() && !m.bits.is_empty() {
            st.count("probe.cursor_at_end_of_input");
        }
        Ok(())
    }

    #[allow(clippy::too_many_arguments)]
    fn check_read(
        &self,
        step: &Step,
        cur: &Cur,
        before: &Actual,
        after: &Actual,
        n: i128,
        moved: i128,
        same_input: bool,
        pushed_one: bool,
        top: Option<String>,
        returns_bits: bool,
        st: &mut Stats,
    ) -> Outcome {
        let w = step.word.as_str();
        let remain = (cur.bits.len() - cur.rel) as i128;
        if n > remain {
            return Err(vio(
                "C06.read",
                format!("{}:past-end-accepted", kind_of(w)),
                step,
                format!("succeeded although {} bits were requested and only {} remain (returned {:?}, offset moved by {})", n, remain, top, moved),
            ));
        }
        if !same_input {
            return Err(vio("C06.read", format!("{}:input-changed", kind_of(w)), step, "a read changed the input or the suspended inputs".into()));
        }
        if moved != n {
            return Err(vio("C06.read", format!("{}:advance", kind_of(w)), step, format!("read {} bits but the offset moved by {} (from {})", n, moved, before.offset)));
        }
        if !pushed_one {
            return Err(vio("C06.read", format!("{}:stack", kind_of(w)), step, format!("stack {:?} -> {:?}", before.stack, after.stack)));
        }
        if returns_bits {
            let want = &cur.bits[cur.rel..cur.rel + n as usize];
            let got = top.as_deref().and_then(rendered_bits);
            if got.as_deref() != Some(want) {
                return Err(vio("C06.read", format!("{}:bits", kind_of(w)), step, format!("returned {:?} but the input holds {} there", top, show(want))));
            }
        }
        if (before.offset % 8) != 0 {
            st.count("probe.read_at_unaligned_offset");
        }
        Ok(())
    }

    /// reasons an exact, in-range, well-typed request has to succeed
    fn must_succeed(&self, step: &Step, cur: &Cur) -> Option<String> {
        let remain = (cur.bits.len() - cur.rel) as i128;
        let w = step.word.as_str();
        let arg0 = step.args.last().and_then(|s| parse_int(s));
        match w {
            "bits" => match arg0 {
                Some(n) if n >= 0 && n <= remain => Some(format!("{} bits are available", remain)),
                _ => None,
            },
            "bytes" => match arg0 {
                Some(n) if n >= 0 && n <= remain / 8 => Some(format!("{} bits are available", remain)),
                _ => None,
            },
            "uint" => match arg0 {
                Some(n) if n >= 1 && n <= 127 && n <= remain => Some(format!("{} bits are available", remain)),
                _ => None,
            },
            "int" => match arg0 {
                Some(n) if n >= 1 && n <= 128 && n <= remain => Some(format!("{} bits are available", remain)),
                _ => None,
            },
            "float" => match arg0 {
                Some(n) if (n == 32 || n == 64) && n <= remain => Some(format!("{} bits are available", remain)),
                _ => None,
            },
            "remain" | "big" | "little" => Some("it needs nothing".to_string()),
            "seek" => match arg0 {
                Some(p) if p >= self.start_abs() && p <= self.start_abs() + cur.bits.len() as i128 => Some("the position is inside the input".to_string()),
                _ => None,
            },
            "close-bitstr" => {
                if self.model.len() >= 2 {
                    Some("an input is suspended".to_string())
                } else {
                    None
                }
            }
            _ => match fixed_width(w) {
                Some((n, _)) if (n as i128) <= remain => Some(format!("{} bits are available", remain)),
                _ => None,
            },
        }
    }

    fn start_abs(&self) -> i128 {
        actual(&self.xs).map(|a| a.start as i128).unwrap_or(0)
    }
}

fn kind_of(w: &str) -> &str {
    if fixed_width(w).is_some() {
        match w.chars().next() {
            Some('f') => "fN",
            Some('i') => "iN",
            _ => "uN",
        }
    } else {
        w
    }
}

const FIXED: &[&str] = &[
    "u8", "u8le", "u8be", "i8", "i8le", "i8be", "u16", "u16le", "u16be", "i16", "i16le", "i16be", "u32", "u32le", "u32be", "i32", "i32le", "i32be", "u64",
    "u64le", "u64be", "i64", "i64le", "i64be", "f32", "f32le", "f32be", "f64", "f64le", "f64be",
];

fn gen_step(rng: &mut Rng, sim: &Sim) -> Step {
    let remain = sim.remain() as i128;
    let start = sim.start_abs();
    let len = sim.model.last().unwrap().bits.len() as i128;
    let rel = sim.model.last().unwrap().rel as i128;
    // argument classes: exact, boundary, one past, zero, huge, negative, wrong type
    let count = |rng: &mut Rng, unit: i128| -> String {
        let avail = remain / unit;
        match rng.below(14) {
            0 => format!("{}", avail),
            1 => format!("{}", avail + 1),
            2 => "0".to_string(),
            3 => "1".to_string(),
            4 => "2305843009213693953".to_string(),  // 2^61 + 1
            5 => "9223372036854775808".to_string(),  // 2^63
            6 => "18446744073709551615".to_string(), // 2^64 - 1
            7 => "18446744073709551616".to_string(), // 2^64
            8 => "170141183460469231731687303715884105727".to_string(),
            9 => "-1".to_string(),
            10 => "\"8\"".to_string(),
            _ => format!("{}", rng.below((avail.max(0) as usize).min(40) + 2)),
        }
    };
    let mut step = Step { args: Vec::new(), word: String::new(), stackfail: None, in_meta: false };
    match rng.below(30) {
        0..=5 => {
            step.args.push(count(rng, 1));
            step.word = "bits".into();
        }
        6..=7 => {
            step.args.push(count(rng, 8));
            step.word = "bytes".into();
        }
        8..=9 => {
            step.args.push(match rng.below(5) {
                0 => "127".to_string(),
                1 => "128".to_string(),
                2 => "129".to_string(),
                _ => count(rng, 1),
            });
            step.word = (*rng.pick(&["uint", "int"])).to_string();
        }
        10 => {
            step.args.push((*rng.pick(&["32", "64", "16", "0", "65", "-32", "18446744073709551648"])).to_string());
            step.word = "float".into();
        }
        11..=14 => {
            step.word = (*rng.pick(FIXED)).to_string();
        }
        15..=16 => {
            // magic: the right bits, or wrong ones
            let cur = sim.model.last().unwrap();
            let n = rng.below((remain as usize).min(20) + 3);
            let mut s = String::from("|");
            for i in 0..n {
                let real = cur.bits.get(cur.rel + i).cloned().unwrap_or(false);
                let bit = if rng.chance(1, 12) { !real } else { real };
                s.push(if bit { 'x' } else { '.' });
            }
            s.push('|');
            step.args.push(s);
            step.word = "magic".into();
        }
        17..=19 => {
            let pos = match rng.below(9) {
                0 => start,
                1 => start + len,
                2 => start + len + 1,
                3 => start - 1,
                4 => 0,
                5 => 18446744073709551616i128 + start + rel,
                6 => -5,
                _ => start + rng.below(len as usize + 1) as i128,
            };
            step.args.push(format!("{}", pos));
            step.word = "seek".into();
        }
        20 => {
            let cur = sim.model.last().unwrap();
            // a byte pattern taken from further down the input, or junk
            let mut s = String::from("|");
            let from = cur.rel + 8 * rng.below(4);
            let nb = rng.below(3);
            for i in 0..(nb * 8) {
                let real = cur.bits.get(from + i).cloned().unwrap_or(i % 3 == 0);
                s.push(if real { 'x' } else { '.' });
            }
            if rng.chance(1, 6) {
                s.push('x');
            }
            s.push('|');
            step.args.push(s);
            step.word = "find".into();
        }
        21..=22 => step.word = "remain".into(),
        23 => step.word = (*rng.pick(&["nulbytestr", "cstr"])).to_string(),
        24..=25 => {
            // open what is on the stack (a bit-string read earlier, any alignment) or a literal
            if rng.chance(1, 2) {
                step.args.push((*rng.pick(&["|ff 00 12|", "|x.x|", "||", "|41 42 00 43|", "|7|", "5", "\"s\""])).to_string());
            }
            step.word = "open-bitstr".into();
        }
        26 => step.word = "close-bitstr".into(),
        27 => step.word = (*rng.pick(&["big", "little"])).to_string(),
        _ => {
            step.args.push((*rng.pick(&["7", "\"junk\"", "[ 1 ]", "nil"])).to_string());
            step.word = "dup".into();
        }
    }
    let reads = matches!(step.word.as_str(), "bits" | "bytes" | "uint" | "int" | "float" | "magic" | "remain" | "find" | "nulbytestr" | "cstr") || fixed_width(&step.word).is_some();
    if reads && rng.chance(1, 8) {
        // the result lands in the slot of the first argument (or on top if there is none)
        step.stackfail = Some(step.args.len());
    } else if reads && rng.chance(1, 25) {
        step.in_meta = true;
    }
    step
}

impl Engine for Cursor {
    type Case = Case;
    const NAME: &'static str = "cursor";
    const PROP: &'static str = "C06";
    const RULE: &'static str = "one case = (input of arbitrary bit length and alignment, sequence of up to 50 parsing words with arguments from the classes exact / boundary / one past / zero / huge / negative / wrong type, some with the result push made to fail or issued inside a meta block). Distinct = distinct (word, succeeded?) sequences; non-trivial = at least one operation failed and at least one succeeded.";
    const REAL: &'static str = "xeh bitstr_ext parsing words, Bitstr slicing, the VM that runs them; run in the release profile and in a profile with overflow checks and debug assertions";
    const STUB: &'static str = "process stdout (captured); the input is a simulator-supplied in-memory stream";

    fn generate(rng: &mut Rng, _tier: Tier) -> Case {
        let nbytes = rng.small(32);
        let mut bytes = random_bytes(rng, nbytes);
        if rng.chance(1, 3) {
            // some text with NUL bytes for the string readers
            for (i, b) in bytes.iter_mut().enumerate() {
                *b = if i % 5 == 4 { 0 } else { b'a' + (i % 26) as u8 };
            }
        }
        let total = bytes.len() * 8;
        let (from_bit, to_bit) = match rng.below(3) {
            0 => (0, total),
            1 => {
                let a = rng.below(total + 1);
                (a, a + rng.below(total - a + 1))
            }
            _ => (rng.below(8).min(total), total),
        };
        // rarely: an input of a megabyte and more (size thresholds in the reading code)
        let pad_bytes = if rng.chance(1, 15000) { *rng.pick(&[1usize << 20, (1 << 20) + 4096, 3 << 19]) + rng.below(64) } else { 0 };
        let (from_bit, to_bit) = if pad_bytes > 0 { (from_bit.min(64), total + pad_bytes * 8 - rng.below(9)) } else { (from_bit, to_bit) };
        let mut case = Case { bytes, from_bit, to_bit, steps: Vec::new(), pad_bytes };
        let mut sim = Sim::new(&case);
        // every step renders the whole input several times: keep megabyte cases short
        // rarely: more than a thousand inputs suspended at once (depth thresholds), then the usual
        let deep = if pad_bytes == 0 && rng.chance(1, 15000) { 1020 + rng.below(20) } else { 0 };
        let n = if pad_bytes > 0 { 2 + rng.below(4) } else { deep + 3 + rng.below(if deep > 0 { 12 } else { 48 }) };
        let mut st = Stats::new();
        for k in 0..n {
            let step = if k < deep {
                Step { args: vec![(*rng.pick(&["|7|", "|ff 00 12|", "|x.x|"])).to_string()], word: "open-bitstr".into(), stackfail: None, in_meta: false }
            } else {
                gen_step(rng, &sim)
            };
            let r = guard(|| sim.apply(&step, &mut st));
            case.steps.push(step);
            match r {
                Ok(Ok(())) => {}
                // a violation or a panic while generating: the case ends here, execute() will report it
                _ => break,
            }
        }
        case
    }

    fn execute(case: &Case, st: &mut Stats) -> Outcome {
        let mut sim = Sim::new(case);
        let mut ok = 0;
        let mut failed = 0;
        for step in &case.steps {
            sim.apply(step, st)?;
            st.insns += 1;
        }
        if let (Some(o), Some(f)) = (st.counters.get("probe.successful_operation"), st.counters.get("probe.failed_operation")) {
            ok = *o;
            failed = *f;
        }
        st.nontrivial = ok > 0 && failed > 0;
        let a = actual(&sim.xs)?;
        st.state(((a.start % 8) * 64 + (a.end % 8) * 8) as u64 + (a.offset as u64 % 8));
        Ok(())
    }

    fn shrink(case: &Case) -> Vec<Case> {
        let mut out = Vec::new();
        if case.pad_bytes > 0 {
            for p in [0, case.pad_bytes / 2] {
                let mut c = case.clone();
                c.pad_bytes = p;
                c.to_bit = c.to_bit.min((c.bytes.len() + p) * 8);
                out.push(c);
            }
        }
        let n = case.steps.len();
        let mut size = n / 2;
        while size >= 1 {
            let mut start = 0;
            while start < n {
                let mut c = case.clone();
                c.steps.drain(start..(start + size).min(n));
                out.push(c);
                start += size;
            }
            size /= 2;
        }
        if case.from_bit > 0 {
            let mut c = case.clone();
            c.from_bit = 0;
            out.push(c);
        }
        if case.bytes.iter().any(|b| *b != 0xff && *b != 0) {
            let mut c = case.clone();
            c.bytes = c.bytes.iter().map(|_| 0xff).collect();
            out.push(c);
        }
        if case.bytes.len() > 1 {
            let mut c = case.clone();
            c.bytes.truncate(case.bytes.len() / 2);
            out.push(c);
            let mut c = case.clone();
            c.bytes.pop();
            out.push(c);
        }
        for (i, s) in case.steps.iter().enumerate() {
            if s.stackfail.is_some() {
                let mut c = case.clone();
                c.steps[i].stackfail = None;
                out.push(c);
            }
            if s.in_meta {
                let mut c = case.clone();
                c.steps[i].in_meta = false;
                out.push(c);
            }
        }
        out
    }

    fn to_json(c: &Case) -> Json {
        let steps: Vec<Json> = c
            .steps
            .iter()
            .map(|s| {
                crate::jobj! {"args" => strs(&s.args), "word" => s.word.clone(), "stackfail" => s.stackfail, "in_meta" => s.in_meta}
            })
            .collect();
        crate::jobj! {
            "bytes" => hex_encode(&c.bytes),
            "from_bit" => c.from_bit,
            "to_bit" => c.to_bit,
            "pad_bytes" => c.pad_bytes,
            "steps" => Json::Arr(steps)
        }
    }

    fn from_json(j: &Json) -> Result<Case, String> {
        let mut steps = Vec::new();
        for s in j.f_arr("steps")? {
            steps.push(Step { args: json_strs(s, "args")?, word: s.f_str("word")?, stackfail: s.f_opt_usize("stackfail")?, in_meta: s.f_bool("in_meta")? });
        }
        Ok(Case { bytes: hex_decode(&j.f_str("bytes")?)?, from_bit: j.f_usize("from_bit")?, to_bit: j.f_usize("to_bit")?, steps, pad_bytes: j.get("pad_bytes").and_then(|x| x.int()).unwrap_or(0) as usize })
    }
}
