//! C02 — reverse stepping exactly undoes forward stepping, and replay reproduces it.
//! One party with recording on; the simulator owns the instruction pointer through `next` and
//! `rnext` and walks positions 0..n of one execution in a seeded order: forward bursts, rewinds
//! of any depth, replays from the middle, rewinds nested in replays.
//! Oracle: the first time position i is reached its projection S_i (ip, data stack, frames with
//! locals, loop stack, special stack, every heap cell) and the result R_i of the step i -> i+1
//! are recorded; afterwards standing on position i always shows S_i, a forward step returns R_i
//! and lands on S_{i+1}, a backward step lands on S_{i-1}.
use crate::core::{Engine, Outcome, Stats, Tier, Violation};
use crate::gen::{shrink_source, Env, Features, Gen, Ty};
use crate::json::Json;
use crate::rng::Rng;
use crate::xutil::*;
use xeh::prelude::*;

#[derive(Clone, Debug, PartialEq)]
pub enum Move {
    Fwd(usize),
    Back(usize),
    /// compile a further source while standing in the middle of the execution (a REPL user does this)
    Compile(String),
    /// one forward step with the stack limit armed at (current length + k): the push that would
    /// exceed it fails inside the instruction, after part of its work has been done and logged
    StackFault(usize),
    /// one forward step with the instruction budget exhausted: the step is cancelled
    InsnFault,
    /// the host makes sure recording is on (it is): must change nothing
    ReEnable,
}

#[derive(Clone, Debug)]
pub struct Case {
    pub input: Vec<u8>,
    pub intercept_emit: bool,
    pub rec_from_boot: bool,
    pub history: Vec<String>,
    pub program: String,
    pub walk: Vec<Move>,
    /// long haul: ignore `walk`; run forward up to this many steps, all the way back, and forward
    /// again, comparing a sample of positions (the statement says "any number of forward steps")
    pub long_haul: Option<usize>,
}

pub struct Reverse;

const STEP_CAP: usize = 600;

#[derive(Clone, Debug, PartialEq)]
struct Proj {
    ip: usize,
    data: Vec<String>,
    frames: Vec<String>,
    loops: Vec<String>,
    special: Vec<String>,
    heap: Vec<String>,
}

fn proj(xs: &Xstate) -> Proj {
    let d = xs.verif_dump();
    Proj { ip: d.ip, data: d.data, frames: d.frames, loops: d.loops, special: d.special, heap: d.heap }
}

fn proj_diff(a: &Proj, b: &Proj) -> Option<(String, String)> {
    if a.ip != b.ip {
        return Some(("ip".into(), format!("ip {} vs {}", a.ip, b.ip)));
    }
    let cmp = |name: &str, x: &Vec<String>, y: &Vec<String>| -> Option<(String, String)> {
        if x != y {
            Some((name.to_string(), format!("{} {:?} vs {:?}", name, x, y)))
        } else {
            None
        }
    };
    cmp("data", &a.data, &b.data)
        .or_else(|| cmp("frames", &a.frames, &b.frames))
        .or_else(|| cmp("loops", &a.loops, &b.loops))
        .or_else(|| cmp("special", &a.special, &b.special))
        .or_else(|| {
            if a.heap != b.heap {
                for (i, (x, y)) in a.heap.iter().zip(b.heap.iter()).enumerate() {
                    if x != y {
                        return Some(("heap".to_string(), format!("heap[{}] {} vs {}", i, x, y)));
                    }
                }
                Some(("heap".to_string(), format!("heap length {} vs {}", a.heap.len(), b.heap.len())))
            } else {
                None
            }
        })
}

fn op_kind(xs: &Xstate) -> String {
    if xs.is_running() {
        let op = xs.verif_opcode(&xs.bytecode()[xs.ip()]);
        let mut it = op.split(' ');
        let k = it.next().unwrap_or("").to_string();
        if k == "native" {
            format!("native:{}", it.next().unwrap_or(""))
        } else {
            k.split('(').next().unwrap_or("").to_string()
        }
    } else {
        "end".to_string()
    }
}

fn prepare(case: &Case) -> Result<Xstate, Xerr> {
    let cfg = BootCfg { recording: case.rec_from_boot, intercept_emit: case.intercept_emit, input: case.input.clone(), d2: false };
    let mut xs = boot(&cfg);
    for h in &case.history {
        xs.set_insn_limit(Some(20_000)).unwrap();
        let _ = xs.eval(h);
    }
    xs.set_insn_limit(Some(100_000)).unwrap();
    xs.compile(&case.program)?;
    // the recording starts here unless it was on from boot: position 0 is the start of the log
    xs.set_recording_enabled(true);
    Ok(xs)
}

struct Walker {
    xs: Xstate,
    hist: Vec<Proj>,
    kinds: Vec<String>,
    results: Vec<String>,
    pos: usize,
    /// position whose forward step fails (the end of the forward path), once known
    fail_at: Option<usize>,
    /// a failing step has been taken and not yet rewound
    dirty: bool,
    /// the walk left the recorded part of the execution (see backward); it ends there
    lost: bool,
    steps: u64,
}

impl Walker {
    fn check_here(&self, what: &str) -> Outcome {
        let cur = proj(&self.xs);
        if let Some((field, d)) = proj_diff(&self.hist[self.pos], &cur) {
            return Err(Violation::new(
                "C02.restore",
                format!("{}:{}", what, field),
                format!("{} to position {} (next op {}): recorded vs now: {}", what, self.pos, self.kinds.get(self.pos).cloned().unwrap_or_default(), d),
            ));
        }
        Ok(())
    }

    fn forward(&mut self, st: &mut Stats) -> Result<bool, Violation> {
        if self.dirty || !self.xs.is_running() {
            return Ok(false);
        }
        let known = self.pos < self.results.len();
        if !known && self.hist.len() >= STEP_CAP {
            return Ok(false);
        }
        let kind = op_kind(&self.xs);
        st.event(if known { "replay" } else { "fwd" }, self.pos);
        self.steps += 1;
        let r = self.xs.next();
        let rr = render_result(&r);
        if known {
            if rr != self.results[self.pos] {
                return Err(Violation::new(
                    "C02.replay",
                    "result",
                    format!("replaying step {} ({}) returned {} but originally {}", self.pos, self.kinds[self.pos], rr, self.results[self.pos]),
                ));
            }
            st.count("probe.replayed_step");
            match r {
                Ok(()) => {
                    self.pos += 1;
                    self.check_here("replay")?;
                }
                Err(_) => {
                    self.dirty = true;
                }
            }
        } else {
            self.results.push(rr);
            self.kinds.push(kind);
            match r {
                Ok(()) => {
                    self.hist.push(proj(&self.xs));
                    self.pos += 1;
                }
                Err(_) => {
                    self.fail_at = Some(self.pos);
                    self.dirty = true;
                    st.count("fault.failing_step");
                }
            }
        }
        Ok(true)
    }

    /// A forward step under an armed fault. If the fault fires the step is a transient failure:
    /// it is not part of the recorded execution, and the rnext that follows must undo exactly its
    /// partial effects (landing on the current position) or, if there were none, the previous step.
    fn faulted(&mut self, st: &mut Stats, stack_k: Option<usize>, allow_floor: bool) -> Result<(), Violation> {
        if self.dirty || !self.xs.is_running() {
            return Ok(());
        }
        let known = self.pos < self.results.len();
        if known && self.results[self.pos] != "Ok" {
            return Ok(());
        }
        if !known && self.hist.len() >= STEP_CAP {
            return Ok(());
        }
        match stack_k {
            Some(k) => self.xs.set_stack_limit(Some(self.xs.verif_data_len() + k)).unwrap(),
            None => self.xs.set_insn_limit(Some(0)).unwrap(),
        }
        let kind = op_kind(&self.xs);
        st.event(if stack_k.is_some() { "stackfault" } else { "insnfault" }, self.pos);
        self.steps += 1;
        let r = self.xs.next();
        self.xs.set_stack_limit(None).unwrap();
        self.xs.set_insn_limit(Some(100_000)).unwrap();
        let fired = is_limit_err(&r, None);
        if !fired {
            // the limit was not reached: an ordinary step
            let rr = render_result(&r);
            if known {
                if rr != self.results[self.pos] {
                    return Err(Violation::new(
                        "C02.replay",
                        "result",
                        format!("replaying step {} ({}) returned {} but originally {}", self.pos, kind, rr, self.results[self.pos]),
                    ));
                }
                self.pos += 1;
                return self.check_here("replay");
            }
            self.results.push(rr);
            self.kinds.push(kind);
            match r {
                Ok(()) => {
                    self.hist.push(proj(&self.xs));
                    self.pos += 1;
                }
                Err(_) => {
                    self.fail_at = Some(self.pos);
                    self.dirty = true;
                    st.count("fault.failing_step");
                }
            }
            return Ok(());
        }
        st.count(if stack_k.is_some() { "fault.stackfail_inside_step" } else { "fault.preempt_step" });
        if stack_k.is_some() && kind.starts_with("native:") {
            st.count("probe.trip_inside_native_word");
        }
        self.dirty = true;
        let before = self.pos;
        self.backward(st, allow_floor)?;
        if !self.lost && self.pos == before {
            st.count("probe.fault_partial_effects_undone");
        }
        Ok(())
    }

    fn backward(&mut self, st: &mut Stats, allow_floor: bool) -> Result<bool, Violation> {
        if self.dirty {
            // first rnext after a failing step: it undoes either the partial effects of the failed
            // step (landing on S_n) or, when there were none, the previous step (S_{n-1})
            st.event("back-after-fail", self.pos);
            self.steps += 1;
            let r = self.xs.rnext();
            if let Err(e) = r {
                return Err(Violation::new("C02.rnext", "error-after-fail", format!("rnext after a failing step returned {}", render_err(&e))));
            }
            self.dirty = false;
            let cur = proj(&self.xs);
            if proj_diff(&self.hist[self.pos], &cur).is_none() {
                st.count("probe.fail_undone_in_place");
                return Ok(true);
            }
            if self.pos > 0 && proj_diff(&self.hist[self.pos - 1], &cur).is_none() {
                self.pos -= 1;
                st.count("probe.fail_undone_prev");
                return Ok(true);
            }
            if self.pos == 0 && !allow_floor {
                // recording was on before the program: a failing first step without partial effects
                // is undone into the history, which this walk has no record of. Nothing to check.
                st.count("probe.fail_undone_into_history");
                self.lost = true;
                return Ok(false);
            }
            let (field, d) = proj_diff(&self.hist[self.pos], &cur).unwrap();
            return Err(Violation::new(
                "C02.restore",
                format!("after-fail:{}", field),
                format!(
                    "rnext after the failing step {} ({}) restored neither position {} nor {}: {}",
                    self.pos,
                    self.kinds.get(self.pos).cloned().unwrap_or_default(),
                    self.pos,
                    self.pos.saturating_sub(1),
                    d
                ),
            ));
        }
        if self.pos == 0 {
            if !allow_floor {
                return Ok(false);
            }
            // rnext at the start of the recording is a no-op
            st.event("back-at-start", 0);
            st.count("probe.rnext_at_start");
            let r = self.xs.rnext();
            if let Err(e) = r {
                return Err(Violation::new("C02.rnext", "error-at-start", format!("rnext at the start returned {}", render_err(&e))));
            }
            self.check_here("rnext-at-start")?;
            return Ok(false);
        }
        let kind = self.kinds[self.pos - 1].clone();
        st.event("back", self.pos);
        self.steps += 1;
        let r = self.xs.rnext();
        if let Err(e) = r {
            return Err(Violation::new(
                "C02.rnext",
                "error",
                format!("rnext from position {} (undoing {}) returned {}", self.pos, kind, render_err(&e)),
            ));
        }
        self.pos -= 1;
        probe_kind(st, &kind);
        self.check_here("rewind")?;
        Ok(true)
    }
}

fn probe_kind(st: &mut Stats, kind: &str) {
    match kind {
        "Call" => st.count("probe.rewind_call"),
        "Ret" => st.count("probe.rewind_ret"),
        "Do" => st.count("probe.rewind_do"),
        "Loop" => st.count("probe.rewind_loop"),
        "Break" => st.count("probe.rewind_break"),
        "InitLocal" => st.count("probe.rewind_initlocal"),
        "store" => st.count("probe.rewind_store"),
        "CaseOf" => st.count("probe.rewind_caseof"),
        "native:foreach_next" | "native:?" => st.count("probe.rewind_anon_native"),
        "native:bits" | "native:u8" | "native:uint" | "native:int" | "native:seek" | "native:bytes" | "native:u16" | "native:open-bitstr"
        | "native:close-bitstr" => st.count("probe.rewind_cursor_move"),
        "native:swap" | "native:rot" | "native:over" => st.count("probe.rewind_swap_rot_over"),
        "native:]" | "native:[" => st.count("probe.rewind_vec_builder"),
        "Resolve" => st.count("probe.rewind_resolve"),
        _ => {}
    }
}

fn proj_hash(xs: &Xstate) -> u64 {
    let p = proj(xs);
    let mut h: u64 = 0xcbf29ce484222325;
    let mut eat = |s: &str| {
        for b in s.bytes() {
            h = (h ^ b as u64).wrapping_mul(0x100000001b3);
        }
        h = (h ^ 0xff).wrapping_mul(0x100000001b3);
    };
    eat(&format!("{}", p.ip));
    for v in [&p.data, &p.frames, &p.loops, &p.special, &p.heap] {
        for x in v.iter() {
            eat(x);
        }
        eat("|");
    }
    h
}

/// Long haul: forward to the end (or `cap` steps), all the way back, forward again; the projection
/// is compared at every `STRIDE`-th position and at both ends.
fn run_long(case: &Case, cap: usize, st: &mut Stats) -> Outcome {
    const STRIDE: usize = 997;
    let mut xs = match prepare(case) {
        Ok(xs) => xs,
        Err(_) => {
            st.count("probe.program_rejected");
            return Ok(());
        }
    };
    xs.set_insn_limit(Some(3 * cap + 100)).unwrap();
    st.count("probe.long_haul_cases");
    let mut samples: Vec<u64> = Vec::new();
    let mut n = 0usize;
    while xs.is_running() && n < cap {
        if n % STRIDE == 0 {
            samples.push(proj_hash(&xs));
        }
        if xs.next().is_err() {
            // a failing step is the end of the forward path; what the first rnext after it does is
            // the walk mode's business
            st.count("probe.long_haul_ended_by_an_error");
            return Ok(());
        }
        n += 1;
    }
    let end = proj_hash(&xs);
    st.insns += n as u64;
    st.add("long_haul_steps", n as u64);
    st.nontrivial = n >= 4;
    st.log_u64(end);
    // all the way back
    let mut i = n;
    while i > 0 {
        if let Err(e) = xs.rnext() {
            return Err(Violation::new("C02.rnext", "long-haul:error", format!("rnext failed {} steps before the end of a {}-step execution: {}", n - i, n, render_err(&e))));
        }
        i -= 1;
        if i % STRIDE == 0 && proj_hash(&xs) != samples[i / STRIDE] {
            return Err(Violation::new(
                "C02.restore",
                "long-haul:rewind",
                format!("after {} forward steps, {} backward steps do not restore the state of position {}", n, n - i, i),
            ));
        }
    }
    // forward again
    let mut j = 0usize;
    while xs.is_running() && j < n {
        if j % STRIDE == 0 && proj_hash(&xs) != samples[j / STRIDE] {
            return Err(Violation::new("C02.replay", "long-haul:replay", format!("replaying a {}-step execution from its start, position {} differs from the original", n, j)));
        }
        if xs.next().is_err() {
            break;
        }
        j += 1;
    }
    if j != n || proj_hash(&xs) != end {
        return Err(Violation::new("C02.replay", "long-haul:end", format!("replaying a {}-step execution from its start ended after {} steps or in a different state", n, j)));
    }
    st.state(end);
    Ok(())
}

fn run_walk(case: &Case, st: &mut Stats) -> Outcome {
    let xs = match prepare(case) {
        Ok(xs) => xs,
        Err(_) => {
            st.count("probe.program_rejected");
            return Ok(());
        }
    };
    let p0 = proj(&xs);
    let mut w = Walker { xs, hist: vec![p0], kinds: Vec::new(), results: Vec::new(), pos: 0, fail_at: None, dirty: false, lost: false, steps: 0 };
    let allow_floor = !case.rec_from_boot;
    let mut replays_from_middle = 0;
    for m in &case.walk {
        if w.lost {
            break;
        }
        match m {
            Move::Fwd(n) => {
                if w.pos + 1 < w.hist.len() && w.pos > 0 {
                    replays_from_middle += 1;
                }
                for _ in 0..*n {
                    if !w.forward(st)? {
                        break;
                    }
                }
            }
            Move::Back(k) => {
                for _ in 0..*k {
                    if !w.backward(st, allow_floor)? {
                        break;
                    }
                }
                if w.pos == 0 && !w.dirty {
                    st.count("probe.rewound_to_start");
                }
            }
            Move::StackFault(k) => w.faulted(st, Some(*k), allow_floor)?,
            Move::InsnFault => w.faulted(st, None, allow_floor)?,
            Move::ReEnable => {
                let before = proj(&w.xs);
                w.xs.set_recording_enabled(true);
                st.count("probe.recording_enabled_again_mid_walk");
                if let Some((what, d)) = proj_diff(&before, &proj(&w.xs)) {
                    return Err(Violation::new("C02.host", format!("re-enable:{}", what), format!("making sure recording is on changed the machine state: {}", d)));
                }
            }
            Move::Compile(src) => {
                if w.dirty {
                    continue;
                }
                st.event("compile", w.pos);
                let before = proj(&w.xs);
                let r = w.xs.compile(src);
                st.log(&render_result(&r));
                if r.is_ok() {
                    st.count("probe.compile_mid_walk");
                    // compiling executes nothing (no meta blocks are generated here): the machine state is unchanged
                    if let Some((field, d)) = proj_diff(&before, &proj(&w.xs)) {
                        return Err(Violation::new("C02.compile", field, format!("compiling a source mid-walk changed the machine state: {}", d)));
                    }
                } else {
                    // a rejected source is C10's business; stop the walk here
                    return Ok(());
                }
            }
        }
        st.state(dump_hash(&w.xs.verif_dump()));
    }
    if replays_from_middle >= 3 {
        st.count("probe.replay_from_middle_3x");
    }
    st.insns += w.steps;
    st.nontrivial = w.hist.len() >= 4 && w.steps as usize > w.hist.len();
    st.log_u64(w.hist.len() as u64);
    for r in &w.results {
        st.log(r);
    }
    Ok(())
}

fn features(rng: &mut Rng) -> Features {
    let mut f = Features::swarm(rng);
    f.immediates = rng.chance(1, 4);
    // meta blocks run at compile time, before the recording this engine walks
    f.errors = *rng.pick(&[0, 0, 10, 30]);
    f
}

impl Engine for Reverse {
    type Case = Case;
    const NAME: &'static str = "reverse";
    const PROP: &'static str = "C02";
    const RULE: &'static str = "one case = (input, accepted history, program, walk of forward bursts / rewinds / replays / mid-walk compiles). Distinct = distinct (move kind, position) sequences; non-trivial = the execution has at least 4 positions and the walk re-visits positions (more steps than positions).";
    const REAL: &'static str = "xeh compiler, VM next/rnext, reverse log, all generated words incl. bit-string cursor words";
    const STUB: &'static str = "process stdout (captured); emit goes to the intercepted output variable";

    fn generate(rng: &mut Rng, _tier: Tier) -> Case {
        if rng.chance(1, 50_000) {
            // a history far longer than any generated program: more than a million log entries
            let n = 100_000 + rng.below(80_000);
            let program = match rng.below(6) {
                0 => format!("0 {} 0 do I + loop", n),
                1 => format!("0 var zzc {} 0 do zzc 1 + ! zzc loop zzc", n),
                2 => format!(": zzf local a a 1 + ; 0 {} 0 do zzf loop", n / 2),
                3 => format!("{} 0 do 1 2 swap over rot drop drop drop loop", n / 2),
                4 => format!("{} 0 do 0 seek u8 drop 3 bits drop loop offset", n / 3),
                _ => format!("0 {} 0 do I 3 rem case 0 of 1 + endof 1 of 2 + endof drop endcase loop", n / 3),
            };
            return Case {
                input: random_bytes(rng, 16),
                intercept_emit: true,
                rec_from_boot: rng.chance(1, 4),
                history: Vec::new(),
                program,
                walk: Vec::new(),
                long_haul: Some(2_000_000),
            };
        }
        let mut f = features(rng);
        let input_len = *rng.pick(&[0usize, 16, 64, 64]);
        let input = random_bytes(rng, input_len);
        let intercept_emit = true;
        f.emit = f.emit && intercept_emit;
        let rec_from_boot = rng.chance(1, 4);
        let mut history = Vec::new();
        let mut env = Env::default();
        let mut stack: Vec<Ty> = Vec::new();
        let mut twin = boot(&BootCfg { recording: false, intercept_emit, input: input.clone(), d2: false });
        twin.set_insn_limit(Some(20_000)).unwrap();
        for _ in 0..rng.below(3) {
            let n = 3 + rng.below(20);
            let mut g = Gen::new(rng, f.clone(), env.clone(), "h");
            let (src, st2) = g.source(n, &stack);
            let env2 = g.env.clone();
            let snapshot = twin.clone();
            if twin.eval(&src).is_ok() {
                history.push(src);
                env = env2;
                stack = st2;
            } else {
                twin = snapshot;
                env.counter = env2.counter;
            }
        }
        let n = 3 + rng.below(60);
        let mut g = Gen::new(rng, f.clone(), env.clone(), "p");
        let (program, _) = g.source(n, &stack);
        let env_after = g.env.clone();
        // dry run to learn the length of the execution and the interesting positions
        let mut total = 0usize;
        let mut marks: Vec<usize> = Vec::new();
        twin.set_insn_limit(Some(100_000)).unwrap();
        if twin.compile(&program).is_ok() {
            while twin.is_running() && total < STEP_CAP {
                let k = op_kind(&twin);
                if matches!(k.as_str(), "Call" | "Ret" | "Do" | "Loop" | "Break" | "InitLocal" | "store" | "native:?") {
                    marks.push(total);
                }
                if twin.next().is_err() {
                    break;
                }
                total += 1;
            }
        }
        let mut walk = Vec::new();
        let mut pos = 0usize;
        let mut budget = 4 * total + 20;
        let moves = 2 + rng.below(10);
        for _ in 0..moves {
            if budget == 0 {
                break;
            }
            match rng.below(10) {
                0..=3 => {
                    let n = match rng.below(4) {
                        0 => 1,
                        1 => 1 + rng.below(5),
                        2 => total + 5,
                        _ => 1 + rng.below(total + 1),
                    }
                    .min(budget);
                    walk.push(Move::Fwd(n));
                    pos = (pos + n).min(total + 1);
                    budget -= n.min(budget);
                }
                4..=8 => {
                    let k = match rng.below(6) {
                        0 => 1,
                        1 => 1 + rng.below(3),
                        2 => pos + 1, // all the way back, and once more at the start
                        3 if !marks.is_empty() => {
                            // just across a call / loop boundary
                            let m = *rng.pick(&marks);
                            if pos > m {
                                pos - m
                            } else {
                                1
                            }
                        }
                        _ => 1 + rng.below(pos + 1),
                    }
                    .min(budget.max(1));
                    walk.push(Move::Back(k));
                    pos = pos.saturating_sub(k);
                    budget -= k.min(budget);
                }
                9 if rng.chance(1, 2) => {
                    if rng.chance(3, 4) {
                        walk.push(Move::StackFault(rng.below(2)));
                    } else {
                        walk.push(if rng.chance(1, 3) { Move::ReEnable } else { Move::InsnFault });
                    }
                    pos = (pos + 1).min(total + 1);
                }
                _ => {
                    if rng.chance(1, 3) {
                        let mut f2 = f.clone();
                        f2.meta = false;
                        f2.consts = false;
                        f2.vars = false;
                        f2.lets = false;
                        f2.late = false;
                        // user immediates act on the machine at build time, like meta blocks
                        f2.immediates = false;
                        f2.errors = 0;
                        let mut g = Gen::new(rng, f2, env_after.clone(), "m");
                        let k = 2 + g.rng.below(10);
                        let (src, _) = g.source(k, &[]);
                        walk.push(Move::Compile(src));
                    } else {
                        walk.push(Move::Fwd(1));
                        pos = (pos + 1).min(total + 1);
                    }
                }
            }
        }
        Case { input, intercept_emit, rec_from_boot, history, program, walk, long_haul: None }
    }

    fn execute(case: &Case, st: &mut Stats) -> Outcome {
        match case.long_haul {
            Some(cap) => run_long(case, cap, st),
            None => run_walk(case, st),
        }
    }

    fn shrink(case: &Case) -> Vec<Case> {
        let mut out = Vec::new();
        for i in 0..case.history.len() {
            let mut c = case.clone();
            c.history.remove(i);
            out.push(c);
        }
        for i in 0..case.walk.len() {
            let mut c = case.clone();
            c.walk.remove(i);
            out.push(c);
        }
        for s in shrink_source(&case.program) {
            let mut c = case.clone();
            c.program = s;
            out.push(c);
        }
        for i in 0..case.walk.len() {
            match &case.walk[i] {
                Move::Fwd(n) if *n > 1 => {
                    for m in [n / 2, n - 1] {
                        let mut c = case.clone();
                        c.walk[i] = Move::Fwd(m);
                        out.push(c);
                    }
                }
                Move::Back(n) if *n > 1 => {
                    for m in [n / 2, n - 1] {
                        let mut c = case.clone();
                        c.walk[i] = Move::Back(m);
                        out.push(c);
                    }
                }
                Move::Compile(s) => {
                    for s2 in shrink_source(s) {
                        let mut c = case.clone();
                        c.walk[i] = Move::Compile(s2);
                        out.push(c);
                    }
                }
                _ => {}
            }
        }
        for i in 0..case.history.len() {
            for s in shrink_source(&case.history[i]) {
                let mut c = case.clone();
                c.history[i] = s;
                out.push(c);
            }
        }
        if !case.input.is_empty() {
            let mut c = case.clone();
            c.input.clear();
            out.push(c);
        }
        if case.rec_from_boot {
            let mut c = case.clone();
            c.rec_from_boot = false;
            out.push(c);
        }
        out
    }

    fn to_json(c: &Case) -> Json {
        let walk: Vec<Json> = c
            .walk
            .iter()
            .map(|m| match m {
                Move::Fwd(n) => crate::jobj! {"fwd" => *n},
                Move::Back(n) => crate::jobj! {"back" => *n},
                Move::Compile(s) => crate::jobj! {"compile" => s.clone()},
                Move::StackFault(k) => crate::jobj! {"stackfault" => *k},
                Move::InsnFault => crate::jobj! {"insnfault" => true},
                Move::ReEnable => crate::jobj! {"reenable" => true},
            })
            .collect();
        crate::jobj! {
            "input" => hex_encode(&c.input),
            "intercept_emit" => c.intercept_emit,
            "rec_from_boot" => c.rec_from_boot,
            "history" => strs(&c.history),
            "program" => c.program.clone(),
            "walk" => Json::Arr(walk),
            "long_haul" => c.long_haul
        }
    }

    fn from_json(j: &Json) -> Result<Case, String> {
        let mut walk = Vec::new();
        for m in j.f_arr("walk")? {
            if let Some(n) = m.get("fwd").and_then(|x| x.int()) {
                walk.push(Move::Fwd(n as usize));
            } else if let Some(n) = m.get("back").and_then(|x| x.int()) {
                walk.push(Move::Back(n as usize));
            } else if let Some(s) = m.get("compile").and_then(|x| x.str()) {
                walk.push(Move::Compile(s.to_string()));
            } else if let Some(k) = m.get("stackfault").and_then(|x| x.int()) {
                walk.push(Move::StackFault(k as usize));
            } else if m.get("insnfault").is_some() {
                walk.push(Move::InsnFault);
            } else if m.get("reenable").is_some() {
                walk.push(Move::ReEnable);
            } else {
                return Err("bad walk move".into());
            }
        }
        Ok(Case {
            input: hex_decode(&j.f_str("input")?)?,
            intercept_emit: j.f_bool("intercept_emit")?,
            rec_from_boot: j.f_bool("rec_from_boot")?,
            history: json_strs(j, "history")?,
            program: j.f_str("program")?,
            walk,
            long_haul: j.get("long_haul").and_then(|x| x.int()).map(|x| x as usize),
        })
    }
}
