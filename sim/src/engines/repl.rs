//! C03 (REPL front-end) — /snapshot, /rollback and trial mode are built on clone isolation; and
//! C10's "typed as a REPL line" submission style.
//! The real `run_line` and the real hinter are driven through the H3 hook, no terminal involved.
//! Two sessions A (victim) and B (control) receive the same lines; A additionally receives, at a
//! chosen point, a line that is rejected. The scheduler interleaves Enter, partial typing
//! (keystrokes, which evaluate the text on the live state and reset it from the top snapshot),
//! /snapshot, /rollback, /trial, /repl, /next and /rnext.
//! Oracles: trial evaluation leaves no trace (after keystrokes the live state renders like the
//! top snapshot, and every snapshot renders as before); a snapshot slot changes only when
//! run_line replaces it; /rollback makes the live state render like the popped snapshot; after
//! the rejected line both sessions keep rendering alike.
use crate::core::{Engine, Outcome, Stats, Tier, Violation};
use crate::engines::clones::full_hash;
use crate::engines::reject::FAIL_KINDS;
use crate::gen::{shrink_source, Env, Features, Gen, Ty};
use crate::json::Json;
use crate::rng::Rng;
use crate::xutil::*;
use xeh::file::verif_env;
use xeh::prelude::*;
use xeh::repl::verif::Session;

#[derive(Clone, Debug, PartialEq)]
pub enum Act {
    Enter(String),
    Keys(String),
    /// a line given to the victim session only; it is expected to be rejected
    Poison(String),
}

#[derive(Clone, Debug)]
pub struct Case {
    pub input: Vec<u8>,
    pub recording: bool,
    pub acts: Vec<Act>,
}

pub struct Repl;

struct Party {
    s: Session,
    /// expected rendering of every snapshot slot
    snaps: Vec<u64>,
    trial: bool,
}

fn new_party(case: &Case) -> Party {
    let mut xs = Xstate::boot().expect("boot");
    if !case.input.is_empty() {
        xs.set_binary_input(Xbitstr::from(case.input.clone())).expect("input");
    }
    if case.recording {
        xs.set_recording_enabled(true);
    }
    xs.set_insn_limit(Some(3000)).unwrap();
    let s = Session::new(xs);
    let mut snaps = Vec::new();
    for i in 0..s.snapshots() {
        snaps.push(s.with_snapshot(i, |x| full_hash(x)).unwrap());
    }
    Party { s, snaps, trial: true }
}

fn live_hash(p: &Party) -> u64 {
    p.s.with_live(|xs| full_hash(xs))
}

fn snap_hashes(p: &Party) -> Vec<u64> {
    (0..p.s.snapshots()).map(|i| p.s.with_snapshot(i, |x| full_hash(x)).unwrap()).collect()
}

fn check_snaps(p: &Party, who: &str, what: &str) -> Outcome {
    let got = snap_hashes(p);
    if got.len() != p.snaps.len() {
        return Err(Violation::new("C03.repl", "snapshot-count", format!("[{}] after {}: {} snapshots, expected {}", who, what, got.len(), p.snaps.len())));
    }
    for (i, (g, w)) in got.iter().zip(p.snaps.iter()).enumerate() {
        if g != w {
            return Err(Violation::new(
                "C03.repl",
                format!("snapshot-changed:{}", what.split_whitespace().next().unwrap_or("")),
                format!("[{}] after {}: snapshot slot {} no longer renders as it did when it was taken", who, what, i),
            ));
        }
    }
    Ok(())
}

/// apply one user action to one session, updating the expected snapshot stack
fn apply(p: &mut Party, who: &str, act: &Act, st: &mut Stats) -> Outcome {
    match act {
        Act::Keys(line) => {
            let before = live_hash(p);
            // the budget of a trial evaluation
            p.s.with_live(|xs| xs.set_insn_limit(Some(3000)).unwrap());
            let hint = p.s.keystrokes(line);
            st.log(hint.as_deref().unwrap_or("<none>"));
            if hint.is_some() {
                st.count("probe.trial_evaluation");
                // evaluate-and-reset: the live state is the top snapshot again
                if let Some(top) = p.snaps.last() {
                    let live = live_hash(p);
                    if live != *top {
                        return Err(Violation::new(
                            "C03.repl",
                            "trial-left-trace",
                            format!("[{}] after typing `{}` the live state does not render like the top snapshot", who, line),
                        ));
                    }
                }
            } else if live_hash(p) != before {
                return Err(Violation::new("C03.repl", "no-hint-changed-state", format!("[{}] typing `{}` gave no hint but changed the live state", who, line)));
            }
            check_snaps(p, who, &format!("typing `{}`", line))
        }
        Act::Enter(line) | Act::Poison(line) => {
            let cmd = line.trim();
            p.s.with_live(|xs| xs.set_insn_limit(Some(3000)).unwrap());
            let popped = p.snaps.last().cloned();
            p.s.enter(line);
            match cmd {
                "/snapshot" => {
                    p.snaps.push(live_hash(p));
                    st.count("probe.snapshot_command");
                }
                "/rollback" => {
                    if let Some(h) = popped {
                        p.snaps.pop();
                        st.count("probe.rollback_command");
                        if live_hash(p) != h {
                            return Err(Violation::new("C03.repl", "rollback", format!("[{}] after /rollback the live state does not render like the popped snapshot", who)));
                        }
                    }
                }
                "/trial" => {
                    if !p.trial {
                        p.trial = true;
                        p.snaps.push(live_hash(p));
                    }
                }
                "/repl" => p.trial = false,
                "/next" | "/rnext" => {}
                _ => {
                    if p.trial {
                        // Enter freezes the changes: the top slot is replaced by the new live state
                        p.snaps.pop();
                        p.snaps.push(live_hash(p));
                    }
                }
            }
            if p.s.is_trial() != p.trial {
                return Err(Violation::new("C03.repl", "mode", format!("[{}] after `{}` trial mode is {}", who, line, p.s.is_trial())));
            }
            check_snaps(p, who, &format!("Enter `{}`", line))
        }
    }
}

fn run(case: &Case, st: &mut Stats) -> Outcome {
    // words that print go to the simulated stdout; include / require see the same virtual files
    // as in the reject engine
    verif_env::install(crate::engines::reject::sim_files());
    let r = run_inner(case, st);
    verif_env::uninstall();
    r
}

fn run_inner(case: &Case, st: &mut Stats) -> Outcome {
    let mut a = new_party(case);
    let mut b = new_party(case);
    let mut poisoned = false;
    for (idx, act) in case.acts.iter().enumerate() {
        // The hinter skips the evaluation (and the reset) when the text equals the text it saw last,
        // and Enter clears that memory: an editor optimisation that would make a session that got
        // one more Enter differ for reasons that have nothing to do with the line's content. Typed
        // text gets a distinct run of trailing blanks per action so that it is always evaluated.
        let unique_keys;
        let act = match act {
            Act::Keys(l) => {
                unique_keys = Act::Keys(format!("{}{}", l.trim_end(), " ".repeat(idx + 1)));
                &unique_keys
            }
            other => other,
        };
        let kind = match act {
            Act::Enter(l) if l.trim().starts_with('/') => l.trim().to_string(),
            Act::Enter(_) => "enter".to_string(),
            Act::Keys(_) => "keys".to_string(),
            Act::Poison(_) => "poison".to_string(),
        };
        st.event(&kind, 0);
        match act {
            Act::Poison(line) => {
                // the control never sees this line. Enter itself has a REPL-level effect that does not
                // depend on what the line says: in trial mode it freezes the live state into the top
                // snapshot slot. That is REPL policy, not C10, so the rejected line is only submitted
                // where the freeze changes nothing: in /repl mode, or when the live state already
                // renders like the top snapshot.
                if a.trial && a.snaps.last().copied() != Some(live_hash(&a)) {
                    st.count("probe.poison_skipped_live_differs_from_top_snapshot");
                    continue;
                }
                // only a line that dies while being built is required to leave no trace (one that
                // builds keeps its effects, also when it then fails at run time). Whether this line
                // builds is decided on a copy of the victim's own live state, where the session's
                // definitions are known.
                let builds = a.s.with_live(|xs| {
                    let mut c = xs.clone();
                    // the same budget the line gets in the session (apply re-arms it before Enter)
                    c.set_insn_limit(Some(3000)).unwrap();
                    c.compile(line).is_ok()
                });
                apply(&mut a, "victim", act, st)?;
                if builds {
                    // accepted (or failed at run time): from here on the sessions legitimately differ
                    st.count("probe.poison_line_was_built");
                    return Ok(());
                }
                st.count("fault.rejected_repl_line");
                poisoned = true;
            }
            Act::Enter(l) if l.trim() == "/rollback" && a.trial && a.snaps.len() <= 1 => {
                // /rollback in trial mode with one snapshot left would take away the state that typed
                // text is reset from: from then on typing changes the live state for good. That is a
                // REPL policy question, not clone isolation (C03) and not C10, and everything after it
                // depends on the editor's cache of the last typed text; the search stays out of it.
                st.count("probe.rollback_skipped_last_trial_snapshot");
                continue;
            }
            _ => {
                apply(&mut a, "victim", act, st)?;
                apply(&mut b, "control", act, st)?;
            }
        }
        if poisoned {
            // C10 through the REPL: both sessions keep rendering alike (stack and variables)
            let (va, vb) = (a.s.with_live(|xs| observe(xs)), b.s.with_live(|xs| observe(xs)));
            if va.stack != vb.stack || va.vars != vb.vars {
                let d = va.diff(&vb).unwrap_or_default();
                return Err(Violation::new(
                    "C10.repl",
                    d.split(' ').next().unwrap_or("").to_string(),
                    format!("after a rejected REPL line, `{:?}` left the victim and the control different: {}", act, d),
                ));
            }
            st.count("probe.compared_after_rejected_line");
        }
        st.state(live_hash(&a));
    }
    st.nontrivial = case.acts.len() >= 3;
    Ok(())
}

impl Engine for Repl {
    type Case = Case;
    const NAME: &'static str = "repl";
    const PROP: &'static str = "C03";
    const RULE: &'static str = "one case = a sequence of REPL user actions (Enter a line, type a partial line, /snapshot, /rollback, /trial, /repl, /next, /rnext, one rejected line for the victim only) on two sessions. Distinct = distinct action-kind sequences; non-trivial = at least 3 actions.";
    const REAL: &'static str = "xeh repl::run_line, the trial-mode hinter (evaluate and reset), ReplState snapshot / rollback logic, State::clone, compiler and VM";
    const STUB: &'static str = "terminal and line editor (rustyline is not involved: the hook calls run_line and Hinter::hint directly), process stdout (simulated sink)";

    fn generate(rng: &mut Rng, _tier: Tier) -> Case {
        let mut f = Features::swarm(rng);
        f.errors = *rng.pick(&[0, 10, 30]);
        f.emit = false;
        f.redefine = false;
        let input_len = *rng.pick(&[0usize, 32]);
        let input = random_bytes(rng, input_len);
        let recording = rng.chance(1, 3);
        let mut env = Env::default();
        let stack: Vec<Ty> = Vec::new();
        let n = 3 + rng.below(20);
        let mut acts = Vec::new();
        let poison_at = if rng.chance(2, 3) { Some(rng.below(n)) } else { None };
        for i in 0..n {
            if Some(i) == poison_at {
                let (_, fail) = *rng.pick(FAIL_KINDS);
                let mut g = Gen::new(rng, f.clone(), env.clone(), "r");
                let k = g.rng.below(12);
                let (prefix, _) = g.source(k, &[]);
                acts.push(Act::Poison(format!("{} {} 900900 println", prefix.replace('\n', " "), fail)));
                continue;
            }
            let a = match rng.below(16) {
                0..=5 => {
                    let k = 2 + rng.below(14);
                    let mut g = Gen::new(rng, f.clone(), env.clone(), "l");
                    // lines start from an unknown stack: generate for an empty one
                    let (src, _) = g.source(k, &stack);
                    env = g.env.clone();
                    Act::Enter(src.replace('\n', " "))
                }
                6..=9 => {
                    let k = 1 + rng.below(10);
                    let mut g = Gen::new(rng, f.clone(), env.clone(), "k");
                    let (src, _) = g.source(k, &stack);
                    // typed text never becomes part of the session: its names are not kept
                    let text = src.replace('\n', " ");
                    // a prefix of it, as if still being typed
                    let cut = text.char_indices().map(|(i, _)| i).nth(rng.below(text.chars().count().max(1))).unwrap_or(text.len());
                    Act::Keys(if rng.chance(1, 2) { text } else { text[..cut].to_string() })
                }
                10 => Act::Enter("/snapshot".into()),
                11 => Act::Enter("/rollback".into()),
                12 => Act::Enter((*rng.pick(&["/trial", "/repl"])).to_string()),
                13 => Act::Enter("/next".into()),
                14 => Act::Enter("/rnext".into()),
                _ => Act::Keys((*rng.pick(&["1 2 +", "depth", "drop", "\"x\" println", "[ 1 2 ] 5 swap push", "|ff| |0f| swap bitstr-append"])).to_string()),
            };
            acts.push(a);
        }
        Case { input, recording, acts }
    }

    fn execute(case: &Case, st: &mut Stats) -> Outcome {
        run(case, st)
    }

    fn shrink(case: &Case) -> Vec<Case> {
        let mut out = Vec::new();
        let n = case.acts.len();
        let mut size = n / 2;
        while size >= 1 {
            let mut start = 0;
            while start < n {
                let mut c = case.clone();
                c.acts.drain(start..(start + size).min(n));
                out.push(c);
                start += size;
            }
            size /= 2;
        }
        for (i, a) in case.acts.iter().enumerate() {
            let (text, mk): (&String, fn(String) -> Act) = match a {
                Act::Enter(s) if !s.trim().starts_with('/') => (s, Act::Enter),
                Act::Keys(s) => (s, Act::Keys),
                Act::Poison(s) => (s, Act::Poison),
                _ => continue,
            };
            for s2 in shrink_source(text) {
                let mut c = case.clone();
                c.acts[i] = mk(s2);
                out.push(c);
            }
        }
        if !case.input.is_empty() {
            let mut c = case.clone();
            c.input.clear();
            out.push(c);
        }
        if case.recording {
            let mut c = case.clone();
            c.recording = false;
            out.push(c);
        }
        out
    }

    fn to_json(c: &Case) -> Json {
        let acts: Vec<Json> = c
            .acts
            .iter()
            .map(|a| match a {
                Act::Enter(s) => crate::jobj! {"enter" => s.clone()},
                Act::Keys(s) => crate::jobj! {"keys" => s.clone()},
                Act::Poison(s) => crate::jobj! {"poison" => s.clone()},
            })
            .collect();
        crate::jobj! {"input" => hex_encode(&c.input), "recording" => c.recording, "acts" => Json::Arr(acts)}
    }

    fn from_json(j: &Json) -> Result<Case, String> {
        let mut acts = Vec::new();
        for a in j.f_arr("acts")? {
            if let Some(s) = a.get("enter").and_then(|x| x.str()) {
                acts.push(Act::Enter(s.to_string()));
            } else if let Some(s) = a.get("keys").and_then(|x| x.str()) {
                acts.push(Act::Keys(s.to_string()));
            } else if let Some(s) = a.get("poison").and_then(|x| x.str()) {
                acts.push(Act::Poison(s.to_string()));
            } else {
                return Err("bad act".into());
            }
        }
        Ok(Case { input: hex_decode(&j.f_str("input")?)?, recording: j.f_bool("recording")?, acts })
    }
}
