//! C10 — a source that fails to build has no effect on anything submitted afterwards.
//! Crash consistency for the build pipeline: the victim A and the control B are booted and fed
//! the same accepted history; A is additionally given a source R whose build dies at a chosen
//! token (prefix of a well-formed program leaving any open structures, a failing token of some
//! kind, trailing text). Then both get the same probes. Oracle = the party that never saw the
//! fault: results, visible stack, variables and output must be equal after every probe, and
//! right after R the victim's stack, mode, nesting, pending flows and pending inputs are what
//! they were. A source that builds but fails at run time must not be re-executed by later lines.
use crate::core::{Engine, Outcome, Stats, Tier, Violation};
use crate::gen::{shrink_source, split_tokens, Env, Features, Gen, Ty};
use crate::json::Json;
use crate::rng::Rng;
use crate::xutil::*;
use xeh::prelude::*;

#[derive(Clone, Copy, Debug, PartialEq)]
pub enum Style {
    Eval,
    CompileRun,
}

impl Style {
    fn name(&self) -> &'static str {
        match self {
            Style::Eval => "eval",
            Style::CompileRun => "compile+run",
        }
    }
}

/// failing tokens: (kind, text). `{T}` marks where the trailing text goes when the kind wraps it.
pub const FAIL_KINDS: &[(&str, &str)] = &[
    ("unknown-word", "zzunknownword"),
    ("bad-int", "2d"),
    ("bad-hex", "0xZZ"),
    ("bad-bin", "0b12"),
    ("bad-real", "1.2.3"),
    ("unterminated-string", "\"abc"),
    ("unterminated-bitstr", "|ff 0"),
    ("bad-bitstr", "|fg|"),
    ("unterminated-comment", "\\( abc"),
    ("bad-escape", "\"a\\qb\""),
    ("missing-separator", "\"a\"b"),
    ("closer-then", "then"),
    ("closer-else", "else"),
    ("closer-loop", "loop"),
    ("closer-semicolon", ";"),
    ("closer-bracket", "]"),
    ("closer-brace", "}"),
    ("closer-meta", "#)"),
    ("closer-inject", "~)"),
    ("closer-endcase", "endcase"),
    ("closer-endof", "endof"),
    ("closer-repeat", "repeat"),
    ("closer-until", "until"),
    ("closer-tags", "^}"),
    ("closer-endenum", "endenum"),
    ("break-outside", "break"),
    ("meta-div-zero", "#( 1 0 / #)"),
    ("meta-underflow", "#( drop #)"),
    ("meta-var", "#( 5 var zzmv #)"),
    ("meta-assert", "#( 1 2 assert-eq #)"),
    ("meta-nested-fail", "#( 1 #( 2 #( nil assert #) #) #)"),
    ("meta-open-flow", "#( 1 if 2 #)"),
    ("meta-def-fail", "#( : zzmw 1 0 / ; zzmw #)"),
    ("meta-error-word", "#( 7 error #)"),
    ("meta-exit", "#( 0 exit #)"),
    ("enum-fail", "enum zzE : zzA 1 0 / = zzB endenum"),
    ("enum-unclosed", "enum zzE : zzA"),
    ("let-bad-amp", "[ 1 2 ] let [ & & ]"),
    ("let-bad-brace", "[ 1 ] let }"),
    ("let-eof", "[ 1 ] let ["),
    ("store-unknown", "1 ! zzunknownvar"),
    ("store-readonly", "1 ! dup"),
    ("const-outside-meta", "5 const zzc"),
    ("immediate-outside", "immediate"),
    ("local-outside", "1 local zzl"),
    ("var-in-if", "1 if 2 var zzv then"),
    ("colon-eof", ":"),
    ("var-literal", "1 var 5"),
    ("include-missing", "include \"/nonexistent/zz-verif.xeh\""),
    ("require-missing", "require \"/nonexistent/zz-verif.xeh\""),
    ("include-not-string", "include 5"),
    // virtual files (simulated file system, hook H2): the build dies inside an included file, or
    // after a file has been taken in completely
    ("include-bad-file", "include \"bad1.xeh\""),
    ("require-bad-file", "require \"bad1.xeh\""),
    ("include-open-structure", "include \"bad2.xeh\""),
    ("include-meta-fail", "include \"badmeta.xeh\""),
    ("include-nonutf8", "include \"nonutf8.xeh\""),
    ("include-eio", "require \"err.xeh\""),
    ("include-deep-bad", "include \"deep.xeh\""),
    ("require-then-fail", "require \"lib1.xeh\" zzunknownword"),
    ("require-nested-then-fail", "require \"lib2.xeh\" l2w drop 1 0 #( 1 0 / #)"),
    ("include-then-fail", "include \"lib1.xeh\" l1w drop ]"),
    ("see-unknown", "see zzunknownword"),
    ("defined-eof", "defined"),
    ("late-eof", "late"),
    ("end-of-text", ""),
    // a limit trips inside a meta block: the build is cancelled at that instant
    ("meta-preempt", "#( 0 1 2 3 4 5 + + + + + #)"),
    ("meta-stackfail", "#( 1 2 3 4 5 6 7 8 [ 9 ] drop drop drop drop drop drop drop drop #)"),
];

#[derive(Clone, Debug)]
pub struct Rejected {
    pub prefix: String,
    pub kind: String,
    pub fail: String,
    pub trailing: String,
    /// limit armed around the submission of R (cleared afterwards): ("insn"|"stack", value)
    pub limit: Option<(String, usize)>,
    /// this many blanks follow the text (sources of a megabyte and more without a megabyte in the
    /// case file)
    pub pad: usize,
}

impl Rejected {
    fn text(&self) -> String {
        let mut s = self.prefix.clone();
        if !self.fail.is_empty() {
            if !s.is_empty() {
                s.push(' ');
            }
            s.push_str(&self.fail);
        }
        if !self.trailing.is_empty() {
            s.push(' ');
            s.push_str(&self.trailing);
        }
        if self.pad > 0 {
            s.reserve(self.pad);
            for i in 0..self.pad {
                s.push(if i % 97 == 96 { '\n' } else { ' ' });
            }
        }
        s
    }
}

#[derive(Clone, Debug)]
pub struct Case {
    pub input: Vec<u8>,
    pub recording: bool,
    pub history: Vec<String>,
    /// explicit rejected source; in enumeration mode only `base` is used
    pub rejected: Rejected,
    /// well-formed base source whose every cut position x every failing kind is enumerated
    pub base: String,
    pub enumerate: bool,
    pub style_r: Style,
    pub style_p: Style,
    pub probes: Vec<String>,
    /// the follow-up probes run under a heap limit of (the control's heap length + this), on both
    /// parties: heap cells a rejected source left behind eat into it
    pub probe_heap_slack: Option<usize>,
    /// the last accepted source is still running when the rejected one arrives: it was compiled
    /// and then stopped by an instruction limit of this size; after the rejection it is continued
    /// with run() on both parties
    pub pause: Option<(String, usize)>,
}

pub struct Reject;

/// the simulated file system every party of a case sees (hook H2); contents never change
pub fn sim_files() -> xeh::file::verif_env::Env {
    let mut env = xeh::file::verif_env::Env::default();
    let mut f = |name: &str, text: &[u8]| {
        env.files.insert(name.to_string(), Ok(text.to_vec()));
    };
    f("lib1.xeh", b": l1w 11 ; 12 var l1v");
    f("lib2.xeh", b"require \"lib1.xeh\" : l2w l1w 1 + ;");
    f("bad1.xeh", b": b1w 21 ; 900601 println 22 zzunknownword 900602 println");
    f("bad2.xeh", b": b2w 1 if 2");
    f("badmeta.xeh", b"31 var b3v #( 1 0 / #) 900603 println");
    f("deep.xeh", b": d1w 41 ; include \"bad1.xeh\" 900604 println");
    f("nonutf8.xeh", &[0x31, 0x20, 0xff, 0xfe, 0x20, 0x32]);
    env.files.insert("err.xeh".to_string(), Err("simulated: input/output error".to_string()));
    env
}

const PROBE_LIMIT: usize = 3000;

thread_local! {
    /// VM instructions executed by the parties of the current case (a deterministic measure of work)
    static WORK: std::cell::Cell<u64> = std::cell::Cell::new(0);
}

/// run `f` on `xs` and add the instructions it executed to the case's work counter
fn metered<T>(xs: &mut Xstate, f: impl FnOnce(&mut Xstate) -> T) -> T {
    let before = xs.verif_insn_meter() as u64;
    let r = f(xs);
    let after = xs.verif_insn_meter() as u64;
    WORK.with(|w| w.set(w.get() + after.saturating_sub(before)));
    r
}

/// An enumerated case stops taking further (position, kind) pairs once its parties have executed
/// this many VM instructions. Without it one sampled base program with a slow history (every twin
/// replays the history, up to 20 000 instructions a source, three twins per pair, ~2 000 pairs)
/// cost 70 s of wall clock and was reported as a hang by the supervisor. A pure function of the
/// case, so replay and minimisation see the same pairs.
const ENUM_WORK_BUDGET: u64 = 8_000_000;
/// what booting one party is charged (a boot costs about as much wall clock as a few hundred
/// interpreted instructions)
const BOOT_WORK: u64 = 300;

fn submit(xs: &mut Xstate, style: Style, src: &str) -> Xresult {
    metered(xs, |xs| match style {
        Style::Eval => xs.eval(src),
        Style::CompileRun => xs.compile(src).and_then(|_| xs.run()),
    })
}

fn prepare(case: &Case) -> Xstate {
    let cfg = BootCfg { recording: case.recording, intercept_emit: true, input: case.input.clone(), d2: false };
    let mut xs = boot(&cfg);
    WORK.with(|w| w.set(w.get() + BOOT_WORK));
    for h in &case.history {
        xs.set_insn_limit(Some(20_000)).unwrap();
        let _ = metered(&mut xs, |xs| xs.eval(h));
    }
    xs.set_insn_limit(None).unwrap();
    xs
}

#[derive(Clone, Debug, PartialEq)]
struct Shape {
    stack: Vec<String>,
    hidden: usize,
    mode: String,
    nested: usize,
    flows: usize,
    inputs: usize,
    /// what a program that is paused (by the instruction limit) still needs to be continued
    ip: usize,
    frames: Vec<String>,
    loops: Vec<String>,
    special: Vec<String>,
}

fn shape(xs: &Xstate) -> Shape {
    let d = xs.verif_dump();
    Shape {
        stack: d.data,
        hidden: d.hidden,
        mode: d.mode.to_string(),
        nested: d.nested.len(),
        flows: d.flows.len(),
        inputs: d.inputs,
        ip: d.ip,
        frames: d.frames,
        loops: d.loops,
        special: d.special,
    }
}

#[derive(Clone, Debug, PartialEq)]
struct View {
    stack: Vec<String>,
    vars: Vec<(String, String)>,
    out: String,
}

fn view(xs: &mut Xstate) -> View {
    let d = xs.verif_dump();
    // the visible stack: what programs can reach
    let stack = d.data[d.hidden.min(d.data.len())..].to_vec();
    View { stack, vars: xs.verif_vars(), out: xs.read_stdout().unwrap_or_default() }
}

fn view_diff(a: &View, b: &View) -> Option<(String, String)> {
    if a.stack != b.stack {
        return Some(("stack".into(), format!("visible stack {:?} (victim) vs {:?} (control)", a.stack, b.stack)));
    }
    if a.out != b.out {
        return Some(("output".into(), format!("output {:?} (victim) vs {:?} (control)", a.out, b.out)));
    }
    if a.vars != b.vars {
        for (x, y) in a.vars.iter().zip(b.vars.iter()) {
            if x != y {
                return Some(("vars".into(), format!("variable {:?} (victim) vs {:?} (control)", x, y)));
            }
        }
        return Some(("vars".into(), format!("{} variables (victim) vs {} (control)", a.vars.len(), b.vars.len())));
    }
    None
}

/// One rejected source against one control. Returns Ok(true) if R really was rejected at build time.
fn one(case: &Case, r: &Rejected, st: &mut Stats) -> Result<bool, Violation> {
    match one0(case, r, st) {
        Err(v) if split_tokens(&r.text()).iter().any(|t| t == "immediate") && v.oracle != "panic" => {
            // A user-defined immediate word runs at build time in the submitter's own context, with
            // the real data stack and variables (unlike a sealed meta block). What it did before the
            // source was rejected cannot be rolled back. Classified separately so that the listed
            // finding suppresses nothing else.
            Err(Violation::new("C10.immediate", "build-time-effects-of-user-immediate-word", v.detail))
        }
        other => other,
    }
}

fn one0(case: &Case, r: &Rejected, st: &mut Stats) -> Result<bool, Violation> {
    xeh::file::verif_env::install(sim_files());
    let res = one1(case, r, st);
    if let Some(env) = xeh::file::verif_env::uninstall() {
        if env.file_failures > 0 {
            st.add("fault.virtual_file_error", env.file_failures as u64);
        }
        if env.file_reads > env.file_failures {
            st.add("probe.virtual_file_read", (env.file_reads - env.file_failures) as u64);
        }
    }
    res
}

fn one1(case: &Case, r: &Rejected, st: &mut Stats) -> Result<bool, Violation> {
    let text = r.text();
    let mut a = prepare(case);
    let mut b = prepare(case);
    let mut paused = false;
    if let Some((src, k)) = &case.pause {
        for xs in [&mut a, &mut b] {
            xs.set_insn_limit(Some(*k)).unwrap();
            let r = metered(xs, |xs| xs.compile(src).and_then(|_| xs.run()));
            paused = is_limit_err(&r, Some("insn")) && xs.is_running();
            xs.set_insn_limit(None).unwrap();
        }
        if paused {
            st.count("probe.rejected_while_a_program_is_paused");
        }
    }
    let _ = a.read_stdout();
    let _ = b.read_stdout();
    // a third twin tells whether the source dies while being built (compile executes nothing
    // outside meta blocks) or only when run
    let mut c = prepare(case);
    // "insn-at-failure": the instruction budget ends exactly on (or just after) the instruction that
    // fails at run time; where that is, the third twin finds out first
    let mut fail_meter: Option<usize> = None;
    if let Some((k, _)) = &r.limit {
        if k == "insn-at-failure" {
            c.set_insn_limit(Some(PROBE_LIMIT)).unwrap();
            let rc = metered(&mut c, |c| c.compile(&text).and_then(|_| c.run()));
            match &rc {
                Err(Xerr::ErrorMsg(m)) if is_limit_msg(m, None) => {}
                Err(_) => fail_meter = Some(c.verif_insn_meter()),
                Ok(()) => {}
            }
            c = prepare(case);
        }
    }
    let arm = |xs: &mut Xstate| match &r.limit {
        Some((k, v)) if k == "insn-at-failure" => xs.set_insn_limit(Some(fail_meter.map(|t| t + *v).unwrap_or(PROBE_LIMIT))).unwrap(),
        Some((k, v)) if k == "heap" => {
            xs.set_insn_limit(Some(PROBE_LIMIT)).unwrap();
            xs.set_heap_limit(Some(xs.verif_heap_len() + *v)).unwrap()
        }
        Some((k, v)) if k == "insn" => xs.set_insn_limit(Some(*v)).unwrap(),
        Some((k, v)) if k == "stack" => {
            // the stack fault is armed on top of the ordinary instruction budget: without it a
            // generated loop with a huge bound ran for minutes at build time (and, recorded, for
            // gigabytes), which the supervisor reported as a hang
            xs.set_insn_limit(Some(PROBE_LIMIT)).unwrap();
            xs.set_stack_limit(Some(xs.verif_data_len() + *v)).unwrap()
        }
        _ => xs.set_insn_limit(Some(PROBE_LIMIT)).unwrap(),
    };
    let disarm = |xs: &mut Xstate| {
        xs.set_insn_limit(None).unwrap();
        xs.set_stack_limit(None).unwrap();
        xs.set_heap_limit(None).unwrap();
    };
    arm(&mut c);
    let built = metered(&mut c, |c| c.compile(&text));
    disarm(&mut c);
    let before = shape(&a);
    st.event(&r.kind, split_tokens(&r.prefix).len());
    // the skeleton of structures the prefix leaves open or closed is part of the schedule
    let skeleton: Vec<String> = split_tokens(&r.prefix)
        .into_iter()
        .filter(|t| {
            matches!(
                t.as_str(),
                "if" | "else" | "then" | "do" | "loop" | "begin" | "while" | "repeat" | "until" | "break" | ":" | ";" | "[" | "]" | "{" | "}"
                    | "#(" | "#)" | "case" | "of" | "endof" | "endcase" | "foreach" | "^{" | "^}" | "let" | "local" | "var" | "late"
            )
        })
        .collect();
    st.event(&skeleton.join(" "), if case.style_r == Style::Eval { 0 } else { 1 });
    arm(&mut a);
    let res = submit(&mut a, case.style_r, &text);
    // the budget really ran out (as opposed to an error that merely says so)
    let budget_spent = a.verif_dump().insn_limit.map(|l| a.verif_insn_meter() >= l).unwrap_or(false);
    disarm(&mut a);
    st.log(&render_result(&res));
    if res.is_ok() {
        st.count("probe.source_accepted");
        return Ok(false);
    }
    let build_time = built.is_err();
    if build_time {
        st.count("fault.rejected_at_build");
        if let Some((k, _)) = &r.limit {
            if let Err(Xerr::ErrorMsg(m)) = &res {
                if m.contains("limit reached") {
                    st.count(if k == "insn" { "fault.preempt_inside_meta" } else { "fault.stackfail_inside_meta" });
                }
            }
        }
        if r.prefix.contains("#(") || r.fail.contains("#(") {
            st.count("probe.rejected_with_meta_block");
        }
        // (a) immediately after the rejection
        let after = shape(&a);
        if after != before {
            let field = if after.stack != before.stack {
                "stack"
            } else if after.mode != before.mode || after.nested != before.nested || after.hidden != before.hidden {
                "context"
            } else if after.flows != before.flows {
                "flows"
            } else if after.inputs != before.inputs {
                "inputs"
            } else {
                "paused-program"
            };
            return Err(Violation::new(
                "C10.after",
                field,
                format!("right after the rejected source `{}` ({}): before {:?}, after {:?}", text, r.kind, before, after),
            ));
        }
        // nothing of a rejected source may have been printed or stored... except by its meta blocks
        // (they run at build time); compare from here on only
        let _ = a.read_stdout();
    } else {
        st.count("fault.failed_at_run");
        if let Some((k, _)) = &r.limit {
            match &res {
                Err(Xerr::ErrorMsg(m)) if m.starts_with("stack limit reached") => st.count("fault.stack_limit_trip_at_run"),
                Err(Xerr::ErrorMsg(m)) if m.starts_with("heap limit reached") => st.count("fault.heap_limit_trip_at_run"),
                Err(Xerr::ErrorMsg(m)) if m.starts_with("insn limit reached") => {}
                Err(_) if k == "insn-at-failure" && fail_meter.is_some() => st.count("fault.failure_on_last_budgeted_instructions"),
                _ => {}
            }
        }
    }
    if !build_time {
        if let Err(Xerr::ErrorMsg(m)) = &res {
            if is_limit_msg(m, Some("insn")) && budget_spent {
                // only paused by the watchdog: resuming it later is not a re-execution
                st.count("probe.paused_by_watchdog");
                return Ok(false);
            }
        }
        // (c) the failed line is not re-executed: self-contained probes behave as on a party of
        // their own. The failed line's partial effects stay, so only each probe's own effect is checked.
        let _ = a.read_stdout();
        for (i, lit) in [424201i64, 424202, 424203].iter().enumerate() {
            let depth0 = a.data_depth();
            a.set_insn_limit(Some(PROBE_LIMIT)).unwrap();
            // literals only: the failed line keeps its definitions, and those may shadow any word
            let _ = i;
            let src = format!("{}", lit);
            let r2 = submit(&mut a, case.style_p, &src);
            a.set_insn_limit(None).unwrap();
            st.count("probe.after_runtime_failure");
            if let Err(e) = &r2 {
                return Err(Violation::new(
                    "C10.rerun",
                    "probe-failed",
                    format!("after `{}` failed at run time, the line `{}` ({}) returned {}", text, src, case.style_p.name(), render_err(e)),
                ));
            }
            let out = a.read_stdout().unwrap_or_default();
            let top = a.get_data(0).map(|c| xeh::state::verif::verif_render_cell(c));
            if a.data_depth() != depth0 + 1 || top.as_deref() != Some(&format!("{}", lit)) || !out.is_empty() {
                return Err(Violation::new(
                    "C10.rerun",
                    "probe-effect",
                    format!(
                        "after `{}` failed at run time, the line `{}` ({}) left depth {} (was {}), top {:?}, output {:?}",
                        text,
                        src,
                        case.style_p.name(),
                        a.data_depth(),
                        depth0,
                        top,
                        out
                    ),
                ));
            }
        }
        return Ok(false);
    }
    // the program that was paused when the rejected source arrived is continued on both parties
    if paused {
        a.set_insn_limit(Some(PROBE_LIMIT)).unwrap();
        b.set_insn_limit(Some(PROBE_LIMIT)).unwrap();
        let ra = metered(&mut a, |xs| xs.run());
        let rb = metered(&mut b, |xs| xs.run());
        let (sa, sb) = (render_result(&ra), render_result(&rb));
        if sa != sb {
            return Err(Violation::new(
                "C10.resume",
                "result",
                format!("after the rejected `{}` ({}), continuing the paused program returned {} on the victim but {} on the control", text, r.kind, sa, sb),
            ));
        }
        let (va, vb) = (view(&mut a), view(&mut b));
        if let Some((field, d)) = view_diff(&va, &vb) {
            return Err(Violation::new(
                "C10.resume",
                field,
                format!("after the rejected `{}` ({}), continuing the paused program: {}", text, r.kind, d),
            ));
        }
    }
    // (b) every later source behaves as on the control
    if let Some(k) = case.probe_heap_slack {
        let lim = b.verif_heap_len() + k;
        a.set_heap_limit(Some(lim)).unwrap();
        b.set_heap_limit(Some(lim)).unwrap();
        st.count("probe.follow_up_under_heap_limit");
    }
    for (i, p) in case.probes.iter().enumerate() {
        a.set_insn_limit(Some(PROBE_LIMIT)).unwrap();
        b.set_insn_limit(Some(PROBE_LIMIT)).unwrap();
        let ra = submit(&mut a, case.style_p, p);
        let rb = submit(&mut b, case.style_p, p);
        st.count("probe.follow_up_probes");
        st.event(p.split_whitespace().next().unwrap_or(""), 2);
        st.insns += b.verif_insn_meter() as u64;
        let (sa, sb) = (render_result(&ra), render_result(&rb));
        st.log(&sb);
        if sa != sb {
            return Err(Violation::new(
                "C10.probe",
                "result",
                format!("after the rejected `{}` ({}), probe #{} `{}` returned {} on the victim but {} on the control", text, r.kind, i, p, sa, sb),
            ));
        }
        let (va, vb) = (view(&mut a), view(&mut b));
        if let Some((field, d)) = view_diff(&va, &vb) {
            return Err(Violation::new(
                "C10.probe",
                field,
                format!("after the rejected `{}` ({}), probe #{} `{}`: {}", text, r.kind, i, p, d),
            ));
        }
    }
    st.state(dump_hash(&a.verif_dump()));
    Ok(true)
}

fn base_cut(base: &str, pos: usize) -> (String, String) {
    let toks = split_tokens(base);
    let pos = pos.min(toks.len());
    (toks[..pos].join(" "), toks[pos..].join(" "))
}

fn limit_for(kind: &str) -> Option<(String, usize)> {
    match kind {
        "meta-preempt" => Some(("insn".to_string(), 4)),
        "meta-stackfail" => Some(("stack".to_string(), 5)),
        _ => None,
    }
}

/// every cut position x every failing kind of the base program, in an order that strides through
/// the product (so that an enumeration cut short by ENUM_WORK_BUDGET still spans positions and kinds)
fn enumerated(case: &Case) -> Vec<Rejected> {
    let n = split_tokens(&case.base).len();
    let mut v = Vec::new();
    for pos in 0..=n {
        let (prefix, trailing) = base_cut(&case.base, pos);
        for (kind, fail) in FAIL_KINDS {
            v.push(Rejected { prefix: prefix.clone(), kind: kind.to_string(), fail: fail.to_string(), trailing: trailing.clone(), limit: limit_for(kind), pad: 0 });
        }
    }
    fn gcd(a: usize, b: usize) -> usize {
        if b == 0 { a } else { gcd(b, a % b) }
    }
    let len = v.len();
    let mut stride = 7919 % len.max(1);
    while len > 1 && (stride == 0 || gcd(stride, len) != 1) {
        stride += 1;
    }
    let mut slots: Vec<Option<Rejected>> = v.into_iter().map(Some).collect();
    let mut out = Vec::with_capacity(len);
    let mut i = 0;
    for _ in 0..len {
        out.push(slots[i].take().expect("stride is coprime with the length"));
        i = (i + stride) % len;
    }
    out
}

fn standard_probes(env: &Env) -> Vec<String> {
    let mut v: Vec<String> = vec![
        "424242".into(),
        "depth".into(),
        ": qw1 3 4 + ; qw1".into(),
        "55 var qv1 qv1".into(),
        "1 if 10 else 20 then".into(),
        "3 0 do I loop".into(),
        "0 begin 1 + dup 3 >= until".into(),
        "2 case 1 of 10 endof 2 of 20 endof drop 0 endcase".into(),
        "#( 6 7 * #)".into(),
        "\"probe\" println".into(),
        "[ 1 2 ] { 1 \"a\" }".into(),
        "enum qE : qA : qB endenum qB".into(),
        "[ 5 6 ] let [ qa qb ] qa qb".into(),
        ": qw2 local x x x * ; 7 qw2".into(),
        ".s".into(),
        "require \"lib1.xeh\" l1w l1v".into(),
        "require \"lib2.xeh\" l2w".into(),
        "include \"lib1.xeh\" l1w".into(),
    ];
    for var in env.vars.iter().take(3) {
        v.push(var.name.clone());
    }
    for c in env.consts.iter().take(2) {
        v.push(c.clone());
    }
    for w in env.words.iter().filter(|w| !w.pending).take(2) {
        let mut s = String::new();
        for _ in 0..w.arity {
            s.push_str("1 ");
        }
        s.push_str(&w.name);
        v.push(s);
    }
    v
}

fn generate0(rng: &mut Rng, tier: Tier) -> Case {
    let mut f = Features::swarm(rng);
    f.errors = 0;
    f.redefine = false;
    let input_len = *rng.pick(&[0usize, 64]);
    let input = random_bytes(rng, input_len);
    let recording = rng.chance(1, 4);
    let mut history = Vec::new();
    let mut env = Env::default();
    let mut stack: Vec<Ty> = Vec::new();
    let mut twin = boot(&BootCfg { recording: false, intercept_emit: true, input: input.clone(), d2: false });
    if rng.chance(1, 6) {
        // a file already taken in by the accepted history
        let h = rng.pick(&["require \"lib1.xeh\"", "require \"lib2.xeh\"", "include \"lib1.xeh\""]).to_string();
        let _ = twin.eval(&h);
        history.push(h);
    }
    let late_pair = rng.chance(1, 40);
    if late_pair {
        let h = "late hL1 : hL2 hL1 ;".to_string();
        let _ = twin.eval(&h);
        history.push(h);
    }
    for _ in 0..rng.below(4) {
        let n = 3 + rng.below(20);
        let mut g = Gen::new(rng, f.clone(), env.clone(), "h");
        let (src, st2) = g.source(n, &stack);
        let env2 = g.env.clone();
        let snapshot = twin.clone();
        twin.set_insn_limit(Some(20_000)).unwrap();
        if twin.eval(&src).is_ok() {
            history.push(src);
            env = env2;
            stack = st2;
        } else {
            twin = snapshot;
            env.counter = env2.counter;
        }
    }
    // the base of the rejected source: structure-heavy, in its own name space, with sentinels
    let mut fr = f.clone();
    let runtime_mode = rng.chance(1, 4);
    fr.errors = if runtime_mode { 120 } else if rng.chance(1, 5) { 60 } else { 0 };
    let n = 4 + rng.below(40);
    let mut g = Gen::new(rng, fr, env.clone(), "r");
    let (base0, _) = g.source(n, &stack);
    let mut toks = split_tokens(&base0);
    // sentinels: visible effects if any part of the source is ever executed
    let ns = rng.below(4);
    for k in 0..ns {
        let at = rng.below(toks.len() + 1);
        let sentinel = match rng.below(3) {
            0 => vec![format!("{}", 900100 + k), "println".to_string()],
            1 => vec![format!("{}", 900200 + k)],
            _ => match env.vars.first() {
                Some(v) if v.ty == Ty::Int => vec![format!("{}", 900300 + k), "!".to_string(), v.name.clone()],
                _ => vec![format!("{}", 900400 + k), "print".to_string()],
            },
        };
        // only between statements would be ideal; anywhere is fine for a source that must never run
        for (j, t) in sentinel.into_iter().enumerate() {
            toks.insert((at + j).min(toks.len()), t);
        }
    }
    let base = toks.join(" ");
    let style_r = *rng.pick(&[Style::Eval, Style::CompileRun]);
    let style_p = *rng.pick(&[Style::Eval, Style::CompileRun]);
    // probes: the standard set plus generated ones in their own name space
    let mut probes = standard_probes(&env);
    let mut fp = f.clone();
    fp.errors = 10;
    for _ in 0..rng.below(3) {
        let n = 3 + rng.below(20);
        let mut g = Gen::new(rng, fp.clone(), env.clone(), "q");
        let (src, _) = g.source(n, &[]);
        env.counter = g.env.counter;
        probes.push(src);
    }
    // a random selection, in random order, so that runs differ in what follows the rejection
    let mut chosen = Vec::new();
    let k = 2 + rng.below(6);
    for _ in 0..k {
        if probes.is_empty() {
            break;
        }
        let i = rng.below(probes.len());
        chosen.push(probes.remove(i));
    }
    let ntok = toks.len();
    let rejected = if runtime_mode {
        // the last clause of the statement: a whole, well-formed line that fails when it runs,
        // under the ordinary budget, under a budget that ends on the failing instruction, or
        // because a stack / heap limit trips in the middle of it
        let limit = match rng.below(8) {
            0 | 1 => None,
            2 | 3 => Some(("insn-at-failure".to_string(), 0)),
            4 => Some(("insn-at-failure".to_string(), 1)),
            5 | 6 => Some(("stack".to_string(), rng.below(6))),
            _ => Some(("heap".to_string(), rng.below(3))),
        };
        Rejected { prefix: base.clone(), kind: "fails-at-run".to_string(), fail: String::new(), trailing: "900500 println".to_string(), limit, pad: 0 }
    } else {
        let pos = if rng.chance(1, 8) { ntok } else { rng.below(ntok + 1) };
        let (prefix, trailing) = base_cut(&base, pos);
        let (kind, fail) = *rng.pick(FAIL_KINDS);
        // a rejected source that re-defines a name of the accepted history before it dies:
        // afterwards the name must mean what it meant before (the probe reads it)
        let mut redefinition: Option<(String, String, String)> = None;
        if rng.chance(1, 8) {
            let mut c: Vec<(String, String, String)> = Vec::new();
            for k in env.consts.iter() {
                c.push(("redefine-const-then-fail".into(), format!("#( 424299 const {} #) zzunknownword", k), k.clone()));
                c.push(("redefine-const-in-failing-meta".into(), format!("#( 424296 const {} 1 0 / #)", k), k.clone()));
            }
            for w in env.words.iter().filter(|w| !w.pending) {
                let mut call = String::new();
                for _ in 0..w.arity {
                    call.push_str("1 ");
                }
                call.push_str(&w.name);
                c.push(("redefine-word-then-fail".into(), format!(": {} 424298 ; zzunknownword", w.name), call));
            }
            for v in env.vars.iter() {
                c.push(("redefine-var-then-fail".into(), format!("424297 var {} zzunknownword", v.name), v.name.clone()));
            }
            if !c.is_empty() {
                redefinition = Some(rng.pick(&c).clone());
            }
        }
        if late_pair {
            // the history declared a late word and a user of it; the rejected source defines the
            // late word and calls the user at build time (which binds the call site), then dies
            redefinition = Some(match rng.below(3) {
                0 => ("late-bound-then-fail".into(), ": zzpad 1 2 3 ; : hL1 424295 ; #( hL2 drop #) zzunknownword".into(), "hL2".into()),
                // the bound instruction itself is what fails (a variable cannot be read in a meta block)
                1 => ("late-bound-read-fails".into(), "424294 var hL1 #( hL2 drop #)".into(), "1 var qu 7 var hL1 hL2".into()),
                _ => ("late-bound-const-then-fail".into(), "#( 424293 const hL1 #) #( hL2 drop 1 0 / #)".into(), ": qpad 5 ; : hL1 8 ; hL2".into()),
            });
        }
        if let Some((_, _, probe)) = &redefinition {
            chosen.insert(0, probe.clone());
        }
        let (kind, fail): (String, String) = match &redefinition {
            Some((k, f, _)) => (k.clone(), f.clone()),
            None => (kind.to_string(), fail.to_string()),
        };
        let (kind, fail) = (kind.as_str(), fail.as_str());
        let trailing = match rng.below(4) {
            0 => String::new(),
            1 => format!("{} 900500 println", trailing),
            _ => trailing,
        };
        // rarely: the rejected source is more than a megabyte long
        let pad = if rng.chance(1, 1500) { (1usize << 20) + rng.below(4096) } else { 0 };
        Rejected { prefix, kind: kind.to_string(), fail: fail.to_string(), trailing, limit: limit_for(kind), pad }
    };
    let enumerate = tier == Tier::Thorough && !runtime_mode && rng.chance(1, 2);
    if enumerate && late_pair {
        // the late-bound kinds are not among the enumerated ones, and their probe runs a late word
        // into the instruction limit on both twins for every (position, kind) pair: minutes per case
        history.retain(|h| h != "late hL1 : hL2 hL1 ;");
        chosen.retain(|p| !p.contains("hL2"));
    }
    let probe_heap_slack = if rng.chance(1, 5) { Some(rng.below(3)) } else { None };
    let pause = if !enumerate && !runtime_mode && rng.chance(1, 8) {
        let mut fp = f.clone();
        fp.errors = 0;
        fp.vecs = true;
        fp.maps = true;
        let mut g = Gen::new(rng, fp, env.clone(), "z");
        let n = 6 + g.rng.below(30);
        let (src, _) = g.source(n, &[]);
        env.counter = g.env.counter;
        Some((src, 1 + rng.below(14)))
    } else {
        None
    };
    Case { input, recording, history, rejected, base, enumerate, style_r, style_p, probes: chosen, probe_heap_slack, pause }
}

impl Engine for Reject {
    type Case = Case;
    const NAME: &'static str = "reject";
    const PROP: &'static str = "C10";
    const RULE: &'static str = "one case = (accepted history, rejected source = prefix of a generated program cut at a token position + failing token of one of ~57 kinds + trailing text, submission styles, follow-up probes); victim and control twins. Thorough enumerates every cut position x every failing kind for half of the sampled base programs. Distinct = distinct (failing kind, cut position) sequences; non-trivial = the source really was rejected at build time and at least one probe followed.";
    const REAL: &'static str = "xeh lexer, compiler (contexts, flow stack, meta evaluation, enum, let, include), VM, limits armed inside meta blocks";
    const STUB: &'static str = "process stdout (captured); include/require only of a path that does not exist";

    fn generate(rng: &mut Rng, tier: Tier) -> Case {
        // the dry twin that keeps the history "accepted" sees the same simulated files
        xeh::file::verif_env::install(sim_files());
        let c = generate0(rng, tier);
        xeh::file::verif_env::uninstall();
        c
    }


    fn execute(case: &Case, st: &mut Stats) -> Outcome {
        if case.enumerate {
            st.count("probe.enumerated_bases");
            WORK.with(|w| w.set(0));
            for r in enumerated(case) {
                if WORK.with(|w| w.get()) > ENUM_WORK_BUDGET {
                    st.count("probe.enumeration_cut_by_work_budget");
                    break;
                }
                st.count("enumerated_rejections");
                match one(case, &r, st) {
                    Ok(true) => st.nontrivial = true,
                    Ok(false) => {}
                    Err(mut v) => {
                        v.detail = format!("[enumeration: kind {} after {} tokens] {}", r.kind, split_tokens(&r.prefix).len(), v.detail);
                        return Err(v);
                    }
                }
            }
            return Ok(());
        }
        if one(case, &case.rejected, st)? {
            st.nontrivial = true;
        }
        Ok(())
    }

    fn shrink(case: &Case) -> Vec<Case> {
        let mut out = Vec::new();
        if case.enumerate {
            let mut st = Stats::new();
            WORK.with(|w| w.set(0));
            for r in enumerated(case) {
                if WORK.with(|w| w.get()) > ENUM_WORK_BUDGET {
                    break;
                }
                if one(case, &r, &mut st).is_err() {
                    let mut c = case.clone();
                    c.enumerate = false;
                    c.rejected = r;
                    out.push(c);
                    break;
                }
            }
            return out;
        }
        for i in 0..case.history.len() {
            let mut c = case.clone();
            c.history.remove(i);
            out.push(c);
        }
        for i in 0..case.probes.len() {
            let mut c = case.clone();
            c.probes.remove(i);
            out.push(c);
        }
        if case.rejected.pad > 0 {
            let mut c = case.clone();
            c.rejected.pad = 0;
            out.push(c);
        }
        if !case.rejected.trailing.is_empty() {
            let mut c = case.clone();
            c.rejected.trailing.clear();
            out.push(c);
        }
        for s in shrink_source(&case.rejected.prefix) {
            let mut c = case.clone();
            c.rejected.prefix = s;
            out.push(c);
        }
        for s in shrink_source(&case.rejected.trailing) {
            let mut c = case.clone();
            c.rejected.trailing = s;
            out.push(c);
        }
        for i in 0..case.probes.len() {
            for s in shrink_source(&case.probes[i]) {
                let mut c = case.clone();
                c.probes[i] = s;
                out.push(c);
            }
        }
        for i in 0..case.history.len() {
            for s in shrink_source(&case.history[i]) {
                let mut c = case.clone();
                c.history[i] = s;
                out.push(c);
            }
        }
        if !case.input.is_empty() {
            let mut c = case.clone();
            c.input.clear();
            out.push(c);
        }
        if case.recording {
            let mut c = case.clone();
            c.recording = false;
            out.push(c);
        }
        if let Some((src, k)) = &case.pause {
            let mut c = case.clone();
            c.pause = None;
            out.push(c);
            for s2 in shrink_source(src) {
                let mut c = case.clone();
                c.pause = Some((s2, *k));
                out.push(c);
            }
        }
        if case.style_r != Style::Eval {
            let mut c = case.clone();
            c.style_r = Style::Eval;
            out.push(c);
        }
        if case.style_p != Style::Eval {
            let mut c = case.clone();
            c.style_p = Style::Eval;
            out.push(c);
        }
        out
    }

    fn to_json(c: &Case) -> Json {
        crate::jobj! {
            "input" => hex_encode(&c.input),
            "recording" => c.recording,
            "history" => strs(&c.history),
            "rejected" => crate::jobj! {
                "prefix" => c.rejected.prefix.clone(),
                "kind" => c.rejected.kind.clone(),
                "fail" => c.rejected.fail.clone(),
                "trailing" => c.rejected.trailing.clone(),
                "limit_kind" => c.rejected.limit.as_ref().map(|l| l.0.clone()),
                "limit_value" => c.rejected.limit.as_ref().map(|l| l.1),
                "pad" => c.rejected.pad
            },
            "base" => c.base.clone(),
            "enumerate" => c.enumerate,
            "style_r" => c.style_r.name(),
            "style_p" => c.style_p.name(),
            "probes" => strs(&c.probes),
            "probe_heap_slack" => c.probe_heap_slack,
            "pause_src" => c.pause.as_ref().map(|p| p.0.clone()),
            "pause_at" => c.pause.as_ref().map(|p| p.1)
        }
    }

    fn from_json(j: &Json) -> Result<Case, String> {
        let r = j.get("rejected").ok_or("no rejected")?;
        let limit = match (r.get("limit_kind").and_then(|x| x.str()), r.get("limit_value").and_then(|x| x.int())) {
            (Some(k), Some(v)) => Some((k.to_string(), v as usize)),
            _ => None,
        };
        let style = |s: &str| -> Result<Style, String> {
            match s {
                "eval" => Ok(Style::Eval),
                "compile+run" => Ok(Style::CompileRun),
                _ => Err("bad style".into()),
            }
        };
        Ok(Case {
            input: hex_decode(&j.f_str("input")?)?,
            recording: j.f_bool("recording")?,
            history: json_strs(j, "history")?,
            rejected: Rejected { prefix: r.f_str("prefix")?, kind: r.f_str("kind")?, fail: r.f_str("fail")?, trailing: r.f_str("trailing")?, limit, pad: r.get("pad").and_then(|x| x.int()).unwrap_or(0) as usize },
            base: j.f_str("base")?,
            enumerate: j.f_bool("enumerate")?,
            style_r: style(&j.f_str("style_r")?)?,
            style_p: style(&j.f_str("style_p")?)?,
            probes: json_strs(j, "probes")?,
            probe_heap_slack: j.get("probe_heap_slack").and_then(|x| x.int()).map(|x| x as usize),
            pause: match (j.get("pause_src").and_then(|x| x.str()), j.get("pause_at").and_then(|x| x.int())) {
                (Some(s), Some(k)) => Some((s.to_string(), k as usize)),
                _ => None,
            },
        })
    }
}
