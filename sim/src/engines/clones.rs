//! C03 — a cloned interpreter is an independent snapshot; re-running it is deterministic.
//! Up to six replicas in a clone tree rooted at one `boot()`. All replicas follow the same global
//! script of sources, each at its own pace: the scheduler picks who acts next, down to a single
//! VM instruction, so two replicas can sit in the middle of the same program with their
//! instructions interleaved in any order, touching the shared reference-counted storage.
//! Siblings are dropped at arbitrary instants (survivors then take the unique-owner paths).
//! Oracles: (a) after every action on one replica, every other replica still renders exactly as
//! it did after its own last action; (b) any two replicas that have reached the same point of
//! the script show the same result, output and machine state; rollback restores the snapshot.
use crate::core::{Engine, Outcome, Stats, Tier, Violation};
use crate::gen::{shrink_source, Env, Features, Gen, Ty};
use crate::json::Json;
use crate::rng::{Fnv, Rng};
use crate::xutil::*;
use std::collections::HashMap;
use xeh::prelude::*;

#[derive(Clone, Debug, PartialEq)]
pub enum Act {
    /// clone replica r (through `Clone`, or through `c_api::xeh_snapshot` when the flag is set)
    Clone(usize, bool),
    Drop(usize),
    /// feed replica r the next source of the script (or start stepping it)
    Submit(usize),
    Step(usize, usize),
    RStep(usize, usize),
    /// remember a snapshot of replica r
    Save(usize),
    /// replace replica r by a clone of remembered snapshot s
    Rollback(usize, usize),
    /// replica r evaluates a private source; from then on it no longer follows the script
    Private(usize, usize),
}

#[derive(Clone, Debug)]
pub struct Case {
    pub input: Vec<u8>,
    pub recording: bool,
    pub d2: bool,
    /// the global script; `stepped[i]` = source i is compiled and stepped rather than evaluated
    pub script: Vec<String>,
    pub stepped: Vec<bool>,
    pub private: Vec<String>,
    pub acts: Vec<Act>,
    /// instruction allowance per submitted source; above LIMIT the case is a long recording and the
    /// length of the reverse log is part of what replicas at the same script point must agree on
    pub limit: usize,
}

pub struct Clones;

const LIMIT: usize = 4000;
const MAX_LIVE: usize = 6;

struct Replica {
    xs: Box<Xstate>,
    pos: usize,
    steps: usize,
    mid: bool,
    diverged: bool,
    /// reverse-stepped inside the current source: its output may hold text printed twice
    rewound: bool,
    last: Snap,
    id: usize,
}

/// everything a later source could observe: machine state, contexts, dictionary, pending output.
/// The code vector is left out: resolving a late-bound word patches it without changing behaviour.
fn state_hash(xs: &Xstate) -> u64 {
    let d = xs.verif_dump();
    let mut f = Fnv::new();
    f.u64(dump_hash(&d));
    f.str(&d.ctx);
    for s in &d.nested {
        f.str(s);
    }
    f.u64(d.code_len as u64);
    f.u64(d.dict_len as u64);
    // pending output is compared when the source finishes (reverse steps do not un-print)
    for (n, v) in xs.verif_vars() {
        f.str(&n);
        f.str(&v);
    }
    f.get()
}

pub fn full_hash(xs: &Xstate) -> u64 {
    let d = xs.verif_dump();
    let mut f = Fnv::new();
    f.u64(dump_hash(&d));
    f.str(&d.ctx);
    for s in &d.nested {
        f.str(s);
    }
    for s in &d.flows {
        f.str(s);
    }
    f.u64(d.inputs as u64);
    f.u64(d.code_len as u64);
    f.u64(d.dict_len as u64);
    f.str(d.stdout.as_deref().unwrap_or("<none>"));
    f.u64(d.rlog_len.map(|x| x as u64 + 1).unwrap_or(0));
    // the part of code and dictionary that boot() produced holds no shareable values; render the rest
    let (c0, d0) = boot_lens();
    for op in xs.bytecode().iter().skip(c0) {
        f.str(&xs.verif_opcode(op));
    }
    for s in xs.verif_dict_from(d0).iter() {
        f.str(s);
    }
    f.get()
}

fn boot_lens() -> (usize, usize) {
    thread_local! {
        static LENS: std::cell::Cell<Option<(usize, usize)>> = std::cell::Cell::new(None);
    }
    LENS.with(|l| {
        if let Some(v) = l.get() {
            return v;
        }
        let xs = Xstate::boot().expect("boot");
        let d = xs.verif_dump();
        let v = (d.code_len, d.dict_len);
        l.set(Some(v));
        v
    })
}

/// what a probe on a throw-away clone shows of host objects that the dump cannot render
fn host_probe(xs: &Xstate, d2: bool) -> String {
    if !d2 {
        return String::new();
    }
    let mut c = xs.clone();
    c.set_insn_limit(Some(100)).unwrap();
    let r = c.eval("d2-width d2-height 0 0 d2-data");
    let d = c.verif_dump();
    format!("{} {:?}", render_result(&r), &d.data[d.data.len().saturating_sub(3)..])
}

/// (hash of everything the dump renders, hash of what only a probe can show of host objects)
#[derive(Clone, Copy, PartialEq, Debug)]
struct Snap(u64, u64);

fn snapshot_of(xs: &Xstate, d2: bool) -> Snap {
    let mut f = Fnv::new();
    f.str(&host_probe(xs, d2));
    Snap(full_hash(xs), f.get())
}

/// a change that only the host-object probe sees is the shared `Cell::AnyRc` (d2 canvas)
fn immut_violation(before: Snap, after: Snap, sig: String, detail: String) -> Violation {
    if before.0 == after.0 && before.1 != after.1 {
        Violation::new("C03.hostobj", "d2-canvas-shared-between-clones", format!("{} (only the d2 canvas, a host object behind Cell::AnyRc, changed)", detail))
    } else {
        Violation::new("C03.immutable", sig, detail)
    }
}

fn clone_via_capi(b: Box<Xstate>) -> (Box<Xstate>, Box<Xstate>) {
    // the C API path: raw pointers in, raw pointers out
    unsafe {
        let p = Box::into_raw(b);
        let q = xeh::c_api::xeh_snapshot(p);
        (Box::from_raw(p), Box::from_raw(q))
    }
}

struct World<'a> {
    case: &'a Case,
    live: Vec<Replica>,
    snaps: Vec<(Box<Xstate>, usize, usize, bool, bool, Snap, bool)>,
    /// (script position, steps into it) -> state hash, for replicas standing inside a stepped source
    canon_mid: HashMap<(usize, usize), u64>,
    /// script position -> (result, output, state hash) after the source at that position finished
    canon_done: HashMap<usize, (String, String, u64)>,
    next_id: usize,
}

impl<'a> World<'a> {
    fn check_others(&self, actor: usize, what: &str) -> Outcome {
        for (k, r) in self.live.iter().enumerate() {
            if k == actor {
                continue;
            }
            let h = snapshot_of(&r.xs, self.case.d2);
            if h != r.last {
                return Err(immut_violation(
                    r.last,
                    h,
                    what.split('(').next().unwrap_or(what).to_string(),
                    format!("{} on replica #{} changed what replica #{} renders (it had not acted since)", what, self.live[actor].id, r.id),
                ));
            }
        }
        for (i, s) in self.snaps.iter().enumerate() {
            let h = snapshot_of(&s.0, self.case.d2);
            if h != s.5 {
                return Err(immut_violation(
                    s.5,
                    h,
                    format!("{}:saved-snapshot", what.split('(').next().unwrap_or(what)),
                    format!("{} on replica #{} changed saved snapshot {}", what, self.live[actor].id, i),
                ));
            }
        }
        Ok(())
    }

    fn at_mid(&mut self, r: usize, st: &mut Stats) -> Outcome {
        let rep = &self.live[r];
        if rep.diverged {
            return Ok(());
        }
        let h = state_hash(&rep.xs);
        let key = (rep.pos, rep.steps);
        match self.canon_mid.get(&key) {
            None => {
                self.canon_mid.insert(key, h);
            }
            Some(c) => {
                st.count("probe.same_point_compared");
                if *c != h {
                    return Err(Violation::new(
                        "C03.rerun",
                        "mid-source",
                        format!(
                            "replica #{} stands {} instructions into script source {} (`{}`) but its state differs from the replica that was there first",
                            rep.id, rep.steps, rep.pos, self.case.script[rep.pos]
                        ),
                    ));
                }
            }
        }
        Ok(())
    }

    fn finished(&mut self, r: usize, result: &Xresult, st: &mut Stats) -> Outcome {
        let out = self.live[r].xs.read_stdout().unwrap_or_default();
        let rep = &mut self.live[r];
        let pos = rep.pos;
        rep.pos += 1;
        rep.steps = 0;
        rep.mid = false;
        let rewound = rep.rewound;
        rep.rewound = false;
        if rep.diverged {
            return Ok(());
        }
        let rr = render_result(result);
        let mut h = state_hash(&rep.xs);
        if self.case.limit > LIMIT {
            // long recording: the same sources recorded on the original and on a snapshot leave the
            // same amount of history to step back through
            let d = rep.xs.verif_dump();
            h ^= (d.rlog_len.map(|x| x as u64 + 1).unwrap_or(0)).wrapping_mul(0x9e3779b97f4a7c15);
            st.count("probe.long_recording_source_finished");
            st.add("long_recording_log_entries", d.rlog_len.unwrap_or(0) as u64);
        }
        st.log(&rr);
        match self.canon_done.get(&pos) {
            None => {
                if !rewound {
                    self.canon_done.insert(pos, (rr, out, h));
                }
            }
            Some((cr, co, ch)) => {
                st.count("probe.same_point_compared");
                let what = if *cr != rr {
                    Some(("result", format!("{} vs {}", rr, cr)))
                } else if *co != out && !rewound {
                    Some(("output", format!("{:?} vs {:?}", out, co)))
                } else if *ch != h {
                    Some(("state", "machine state differs".to_string()))
                } else {
                    None
                };
                if let Some((field, d)) = what {
                    let id = rep.id;
                    let detail = match field {
                        "state" => {
                            // find a replica or the first difference for the report
                            format!("replica #{} finished script source {} (`{}`) with a different machine state than the replica that ran it first", id, pos, self.case.script[pos])
                        }
                        _ => format!("replica #{} finished script source {} (`{}`): {} {}", id, pos, self.case.script[pos], field, d),
                    };
                    return Err(Violation::new("C03.rerun", field, detail));
                }
            }
        }
        Ok(())
    }

    fn submit(&mut self, r: usize, st: &mut Stats) -> Outcome {
        if self.live[r].mid {
            return self.step(r, 1, st);
        }
        let pos = self.live[r].pos;
        if self.live[r].diverged || pos >= self.case.script.len() {
            return Ok(());
        }
        let src = self.case.script[pos].clone();
        let xs = &mut self.live[r].xs;
        xs.set_insn_limit(Some(self.case.limit)).unwrap();
        if self.case.stepped[pos] {
            let r0 = xs.compile(&src);
            match r0 {
                Err(e) => self.finished(r, &Err(e), st)?,
                Ok(()) => {
                    self.live[r].mid = true;
                    self.live[r].steps = 0;
                    if !self.live[r].xs.is_running() {
                        self.finished(r, &Ok(()), st)?;
                    } else {
                        st.count("probe.clone_or_act_while_code_pending");
                        self.at_mid(r, st)?;
                    }
                }
            }
        } else {
            let res = xs.eval(&src);
            self.finished(r, &res, st)?;
        }
        Ok(())
    }

    fn step(&mut self, r: usize, k: usize, st: &mut Stats) -> Outcome {
        if !self.live[r].mid {
            return self.submit(r, st);
        }
        for _ in 0..k {
            let res = self.live[r].xs.next();
            st.insns += 1;
            match res {
                Err(e) => {
                    // what a REPL user does next: run(). It resumes at the failed instruction, so it
                    // may run on for long; the watchdog is re-armed first, otherwise a replica that
                    // stepped back and forth (rnext does not give instructions back to the meter)
                    // would be cut off earlier than its sibling and look different for the harness's
                    // own reason.
                    self.live[r].xs.set_insn_limit(Some(self.case.limit)).unwrap();
                    let _ = self.live[r].xs.run();
                    return self.finished(r, &Err(e), st);
                }
                Ok(()) => {
                    self.live[r].steps += 1;
                    if !self.live[r].xs.is_running() {
                        return self.finished(r, &Ok(()), st);
                    }
                }
            }
        }
        self.at_mid(r, st)
    }

    fn rstep(&mut self, r: usize, k: usize, st: &mut Stats) -> Outcome {
        if !self.live[r].mid || !self.case.recording {
            return Ok(());
        }
        let k = k.min(self.live[r].steps);
        for _ in 0..k {
            if let Err(e) = self.live[r].xs.rnext() {
                return Err(Violation::new("C03.rerun", "rnext-error", format!("rnext on replica #{} returned {}", self.live[r].id, render_err(&e))));
            }
            self.live[r].steps -= 1;
            self.live[r].rewound = true;
            st.count("probe.reverse_step_on_replica");
        }
        self.at_mid(r, st)
    }
}

fn run(case: &Case, st: &mut Stats) -> Outcome {
    let cfg = BootCfg { recording: case.recording, intercept_emit: true, input: case.input.clone(), d2: case.d2 };
    let root = Box::new(boot(&cfg));
    let h0 = snapshot_of(&root, case.d2);
    let mut w = World {
        case,
        live: vec![Replica { xs: root, pos: 0, steps: 0, mid: false, diverged: false, rewound: false, last: h0, id: 0 }],
        snaps: Vec::new(),
        canon_mid: HashMap::new(),
        canon_done: HashMap::new(),
        next_id: 1,
    };
    let mut max_live = 1;
    for act in &case.acts {
        let n = w.live.len();
        let label = format!("{:?}", act);
        let actor: Option<usize> = match act {
            Act::Clone(r, capi) => {
                let r = r % n;
                if n < MAX_LIVE {
                    let rep = w.live.remove(r);
                    let (orig, copy) = if *capi {
                        st.count("probe.clone_via_c_api");
                        clone_via_capi(rep.xs)
                    } else {
                        let c = rep.xs.clone();
                        (rep.xs, c)
                    };
                    if rep.mid {
                        st.count("probe.clone_while_code_pending");
                    }
                    let child = Replica { xs: copy, pos: rep.pos, steps: rep.steps, mid: rep.mid, diverged: rep.diverged, rewound: rep.rewound, last: Snap(0, 0), id: w.next_id };
                    w.next_id += 1;
                    let parent = Replica { xs: orig, ..rep };
                    // cloning must not change the original ...
                    if snapshot_of(&parent.xs, case.d2) != parent.last {
                        return Err(Violation::new("C03.immutable", "clone-changed-original", format!("cloning replica #{} changed what it renders", parent.id)));
                    }
                    // ... and the copy renders the same
                    let hc = snapshot_of(&child.xs, case.d2);
                    if hc != parent.last {
                        return Err(Violation::new("C03.immutable", "clone-differs", format!("a fresh clone of replica #{} renders differently from it", parent.id)));
                    }
                    w.live.insert(r, parent);
                    let mut child = child;
                    child.last = hc;
                    w.live.push(child);
                    st.event("clone", r);
                    Some(w.live.len() - 1)
                } else {
                    None
                }
            }
            Act::Drop(r) => {
                if n > 1 {
                    let rep = w.live.remove(r % n);
                    drop(rep);
                    st.count("probe.replica_dropped");
                    st.event("drop", r % n);
                    // everyone else must be untouched by the drop
                    for x in w.live.iter() {
                        if snapshot_of(&x.xs, case.d2) != x.last {
                            return Err(Violation::new("C03.immutable", "drop", format!("dropping a replica changed what replica #{} renders", x.id)));
                        }
                    }
                }
                None
            }
            Act::Submit(r) => {
                let r = r % n;
                st.event("submit", r);
                w.submit(r, st)?;
                Some(r)
            }
            Act::Step(r, k) => {
                let r = r % n;
                st.event("step", r);
                w.step(r, *k, st)?;
                Some(r)
            }
            Act::RStep(r, k) => {
                let r = r % n;
                st.event("rstep", r);
                w.rstep(r, *k, st)?;
                Some(r)
            }
            Act::Save(r) => {
                let r = r % n;
                if w.snaps.len() < 4 {
                    let rep = &w.live[r];
                    let c = rep.xs.clone();
                    let h = snapshot_of(&c, case.d2);
                    w.snaps.push((c, rep.pos, rep.steps, rep.mid, rep.diverged, h, rep.rewound));
                    st.event("save", r);
                }
                Some(r)
            }
            Act::Rollback(r, s) => {
                let r = r % n;
                if !w.snaps.is_empty() {
                    let s = s % w.snaps.len();
                    let (xs, pos, steps, mid, diverged, h, rewound) = {
                        let sn = &w.snaps[s];
                        (sn.0.clone(), sn.1, sn.2, sn.3, sn.4, sn.5, sn.6)
                    };
                    let id = w.live[r].id;
                    if w.live[r].pos >= pos + 3 {
                        st.count("probe.rollback_after_3_sources");
                    }
                    w.live[r] = Replica { xs, pos, steps, mid, diverged, rewound, last: Snap(0, 0), id };
                    let hr = snapshot_of(&w.live[r].xs, case.d2);
                    if hr != h {
                        return Err(Violation::new("C03.immutable", "rollback", format!("replica #{} rolled back to snapshot {} does not render like the snapshot", id, s)));
                    }
                    st.event("rollback", r);
                    st.count("probe.rollback");
                }
                Some(r)
            }
            Act::Private(r, i) => {
                let r = r % n;
                if !case.private.is_empty() && !w.live[r].mid {
                    let src = &case.private[i % case.private.len()];
                    let xs = &mut w.live[r].xs;
                    xs.set_insn_limit(Some(LIMIT)).unwrap();
                    let res = xs.eval(src);
                    st.log(&render_result(&res));
                    w.live[r].diverged = true;
                    st.event("private", r);
                    st.count("probe.private_source_on_one_replica");
                }
                Some(r)
            }
        };
        max_live = max_live.max(w.live.len());
        if let Some(a) = actor {
            if a < w.live.len() {
                w.check_others(a, &label)?;
                let h = snapshot_of(&w.live[a].xs, case.d2);
                w.live[a].last = h;
                st.state(h.0);
            }
        }
    }
    st.nontrivial = max_live >= 2;
    st.log_u64(w.canon_done.len() as u64);
    Ok(())
}

impl Engine for Clones {
    type Case = Case;
    const NAME: &'static str = "clones";
    const PROP: &'static str = "C03";
    const RULE: &'static str = "one case = (input, global script of sources each evaluated or compiled-and-stepped, private sources, schedule of clone / drop / submit / step / reverse-step / save / rollback / private actions over up to 6 replicas). Distinct = distinct (action kind, replica) sequences; non-trivial = at least two replicas were alive together.";
    const REAL: &'static str = "xeh State::clone and c_api::xeh_snapshot, compiler, VM next/rnext, all generated words on shared reference-counted storage";
    const STUB: &'static str = "process stdout (captured); the words the property excludes (random, random-bits, read-all, write-all, exec-piped, include/require) are not generated";

    fn generate(rng: &mut Rng, _tier: Tier) -> Case {
        if rng.chance(1, 30_000) {
            // a long recording: a snapshot taken while the reverse log is live, then millions of log
            // entries on both copies (growth paths of the log itself are shared-nothing only if the
            // copy behaves like the original at every size)
            let n = 500_000 + rng.below(200_000);
            let first = match rng.below(4) {
                0 => "1 2 3 drop drop".to_string(),
                1 => format!("0 {} 0 do I + loop", 5 + rng.below(300)),
                2 => "0 var zzc [ 1 2 3 ] length".to_string(),
                _ => format!("{} 0 do 1 drop loop 7", 1 + rng.below(40)),
            };
            let long = match rng.below(4) {
                0 => format!("0 {} 0 do I + loop", n),
                1 => format!("{} 0 do 1 2 swap drop drop loop", n / 2),
                2 => format!("0 var zzd {} 0 do zzd 1 + ! zzd loop zzd", n / 2),
                _ => format!(": zzg local a a 1 + ; 0 {} 0 do zzg loop", n / 3),
            };
            let mut acts = vec![Act::Submit(0)];
            if rng.chance(1, 3) {
                acts.push(Act::Save(0));
            }
            acts.push(Act::Clone(0, rng.chance(1, 4)));
            let who = rng.below(2);
            acts.push(Act::Submit(who));
            acts.push(Act::Submit(1 - who));
            acts.push(Act::Submit(who));
            acts.push(Act::Submit(1 - who));
            return Case {
                input: Vec::new(),
                recording: true,
                d2: false,
                script: vec![first, long, "depth".to_string()],
                stepped: vec![false, false, false],
                private: Vec::new(),
                acts,
                limit: 8_000_000,
            };
        }
        let mut f = Features::swarm(rng);
        f.immediates = rng.chance(1, 4);
        f.errors = *rng.pick(&[0, 0, 10, 30]);
        // bias toward shared-structure mutation
        if rng.chance(1, 2) {
            f.bits = true;
            f.vars = true;
            f.vecs = true;
        }
        if rng.chance(1, 3) {
            // values carrying tags are Rc-shared between copies too
            f.tags = true;
            f.tag_weight = 10;
        }
        let input_len = *rng.pick(&[0usize, 32, 64]);
        let input = random_bytes(rng, input_len);
        let recording = rng.chance(1, 2);
        // the 2D canvas plugin: a host object behind Cell::AnyRc (listed known finding: it is shared by clones)
        let d2 = rng.chance(1, 12);
        let ns = 2 + rng.below(6);
        let mut script = Vec::new();
        let mut stepped = Vec::new();
        let mut env = Env::default();
        let mut stack: Vec<Ty> = Vec::new();
        // a dry twin keeps the abstract stack honest: a failing source leaves an unknown stack
        let mut twin = boot(&BootCfg { recording: false, intercept_emit: true, input: input.clone(), d2 });
        for _ in 0..ns {
            let n = 3 + rng.below(30);
            let mut g = Gen::new(rng, f.clone(), env.clone(), "s");
            let (mut src, st2) = g.source(n, &stack);
            env = g.env.clone();
            if d2 && rng.chance(1, 2) {
                src.push_str(*rng.pick(&[" 5 7 d2-resize", " 3 d2-color!", " 2 3 d2-resize 1 1 d2-data!", " d2-clear"]));
            }
            twin.set_insn_limit(Some(LIMIT)).unwrap();
            if twin.eval(&src).is_ok() {
                stack = st2;
            } else {
                stack = Vec::new();
                // keep only what certainly exists
                let _ = twin.eval("depth 0 do drop loop");
            }
            script.push(src);
            stepped.push(rng.chance(1, 2));
        }
        let mut private = Vec::new();
        for _ in 0..rng.below(3) {
            let n = 3 + rng.below(20);
            let mut g = Gen::new(rng, f.clone(), env.clone(), "x");
            let (src, _) = g.source(n, &[]);
            private.push(src);
        }
        let na = 5 + rng.below(40);
        let mut acts = Vec::new();
        for _ in 0..na {
            let r = rng.below(8);
            let a = match rng.below(20) {
                0..=2 => Act::Clone(r, rng.chance(1, 4)),
                3..=4 => Act::Drop(r),
                5..=9 => Act::Submit(r),
                10..=13 => Act::Step(r, 1 + rng.small(12)),
                14 => Act::RStep(r, 1 + rng.small(6)),
                15 => Act::Save(r),
                16 => Act::Rollback(r, rng.below(4)),
                17 => {
                    if private.is_empty() {
                        Act::Submit(r)
                    } else {
                        Act::Private(r, rng.below(4))
                    }
                }
                _ => Act::Step(r, 1),
            };
            acts.push(a);
        }
        Case { input, recording, d2, script, stepped, private, acts, limit: LIMIT }
    }

    fn execute(case: &Case, st: &mut Stats) -> Outcome {
        run(case, st)
    }

    fn shrink(case: &Case) -> Vec<Case> {
        let mut out = Vec::new();
        let n = case.acts.len();
        let mut size = n / 2;
        while size >= 1 {
            let mut start = 0;
            while start < n {
                let mut c = case.clone();
                c.acts.drain(start..(start + size).min(n));
                out.push(c);
                start += size;
            }
            size /= 2;
        }
        // drop the last script source (positions stay valid)
        if case.script.len() > 1 {
            let mut c = case.clone();
            c.script.pop();
            c.stepped.pop();
            out.push(c);
        }
        for i in 0..case.script.len() {
            // empty a source instead of removing it: script positions stay the same
            if !case.script[i].is_empty() {
                let mut c = case.clone();
                c.script[i] = String::new();
                out.push(c);
            }
            for s in shrink_source(&case.script[i]) {
                let mut c = case.clone();
                c.script[i] = s;
                out.push(c);
            }
            if case.stepped[i] {
                let mut c = case.clone();
                c.stepped[i] = false;
                out.push(c);
            }
        }
        for i in 0..case.private.len() {
            for s in shrink_source(&case.private[i]) {
                let mut c = case.clone();
                c.private[i] = s;
                out.push(c);
            }
        }
        for (i, a) in case.acts.iter().enumerate() {
            let simpler = match a {
                Act::Step(r, k) if *k > 1 => Some(Act::Step(*r, k / 2)),
                Act::RStep(r, k) if *k > 1 => Some(Act::RStep(*r, k / 2)),
                Act::Clone(r, true) => Some(Act::Clone(*r, false)),
                _ => None,
            };
            if let Some(s) = simpler {
                let mut c = case.clone();
                c.acts[i] = s;
                out.push(c);
            }
        }
        if !case.input.is_empty() {
            let mut c = case.clone();
            c.input.clear();
            out.push(c);
        }
        if case.recording {
            let mut c = case.clone();
            c.recording = false;
            out.push(c);
        }
        out
    }

    fn to_json(c: &Case) -> Json {
        let acts: Vec<Json> = c
            .acts
            .iter()
            .map(|a| match a {
                Act::Clone(r, capi) => crate::jobj! {"op" => "clone", "r" => *r, "c_api" => *capi},
                Act::Drop(r) => crate::jobj! {"op" => "drop", "r" => *r},
                Act::Submit(r) => crate::jobj! {"op" => "submit", "r" => *r},
                Act::Step(r, k) => crate::jobj! {"op" => "step", "r" => *r, "k" => *k},
                Act::RStep(r, k) => crate::jobj! {"op" => "rstep", "r" => *r, "k" => *k},
                Act::Save(r) => crate::jobj! {"op" => "save", "r" => *r},
                Act::Rollback(r, s) => crate::jobj! {"op" => "rollback", "r" => *r, "s" => *s},
                Act::Private(r, i) => crate::jobj! {"op" => "private", "r" => *r, "i" => *i},
            })
            .collect();
        crate::jobj! {
            "input" => hex_encode(&c.input),
            "recording" => c.recording,
            "d2" => c.d2,
            "script" => strs(&c.script),
            "stepped" => Json::Arr(c.stepped.iter().map(|b| Json::Bool(*b)).collect()),
            "private" => strs(&c.private),
            "acts" => Json::Arr(acts),
            "limit" => c.limit
        }
    }

    fn from_json(j: &Json) -> Result<Case, String> {
        let mut acts = Vec::new();
        for a in j.f_arr("acts")? {
            let r = a.f_usize("r")?;
            acts.push(match a.f_str("op")?.as_str() {
                "clone" => Act::Clone(r, a.f_bool("c_api")?),
                "drop" => Act::Drop(r),
                "submit" => Act::Submit(r),
                "step" => Act::Step(r, a.f_usize("k")?),
                "rstep" => Act::RStep(r, a.f_usize("k")?),
                "save" => Act::Save(r),
                "rollback" => Act::Rollback(r, a.f_usize("s")?),
                "private" => Act::Private(r, a.f_usize("i")?),
                other => return Err(format!("unknown op {}", other)),
            });
        }
        let script = json_strs(j, "script")?;
        let mut stepped: Vec<bool> = j.f_arr("stepped")?.iter().map(|b| b.boolean().unwrap_or(false)).collect();
        stepped.resize(script.len(), false);
        Ok(Case {
            input: hex_decode(&j.f_str("input")?)?,
            recording: j.f_bool("recording")?,
            d2: j.f_bool("d2")?,
            script,
            stepped,
            private: json_strs(j, "private")?,
            acts,
            limit: j.get("limit").and_then(|x| x.int()).map(|x| x as usize).unwrap_or(LIMIT),
        })
    }
}
