//! C14 — resource limits are hard bounds and hitting one is recoverable.
//! Limits are this library's fault model (cancellation, exhaustion). For one generated program an
//! unlimited twin is stepped to learn what it needs (instructions, data-stack depth, heap cells);
//! then fresh parties run the same program under limits placed at, just below and just above
//! those needs, set before the evaluation or between two steps of it.
//! Invariants (every step in step style, at the end otherwise): meter <= N, stack and heap never
//! grow past S / H. Oracles: a limit that is not exceeded changes nothing; one that is exceeded
//! makes the call fail; after any trip, with limits cleared, self-contained probes work.
use crate::core::{Engine, Outcome, Stats, Tier, Violation};
use crate::gen::{shrink_source, Env, Features, Gen, Ty};
use crate::json::Json;
use crate::rng::Rng;
use crate::xutil::*;
use xeh::prelude::*;

#[derive(Clone, Copy, Debug, PartialEq)]
pub enum Kind {
    Insn,
    Stack,
    Heap,
}

impl Kind {
    fn name(&self) -> &'static str {
        match self {
            Kind::Insn => "insn",
            Kind::Stack => "stack",
            Kind::Heap => "heap",
        }
    }
    fn parse(s: &str) -> Option<Kind> {
        match s {
            "insn" => Some(Kind::Insn),
            "stack" => Some(Kind::Stack),
            "heap" => Some(Kind::Heap),
            _ => None,
        }
    }
}

#[derive(Clone, Copy, Debug, PartialEq)]
pub enum Style {
    Eval,
    CompileRun,
    CompileStep,
}

#[derive(Clone, Debug, PartialEq)]
pub struct Trip {
    pub kind: Kind,
    /// absolute limit value handed to the setter
    pub value: usize,
    /// set the limit after this many steps of the program (step style only); 0 = before submitting
    pub at_step: usize,
}

#[derive(Clone, Debug)]
pub struct Case {
    pub input: Vec<u8>,
    pub history: Vec<String>,
    pub program: String,
    pub style: Style,
    /// explicit trips; ignored when `enumerate` is set
    pub trips: Vec<Trip>,
    /// enumerate every limit value from 0 to need+1 for all three kinds
    pub enumerate: bool,
    /// after the program, with the limit still armed, this many further evaluations (a rejected
    /// source that runs a meta block first, then the program again): the bounds hold across them
    pub follow_ups: usize,
    /// step style only, with reverse recording on: after this many forward steps, step back this
    /// many times, then go on forward (instructions executed twice are executed twice)
    pub rewind: Option<(usize, usize)>,
}

pub struct Limits;

const WATCHDOG: usize = 4000;
const STEP_CAP: usize = 3 * WATCHDOG;

fn prepare(case: &Case) -> Xstate {
    let cfg = BootCfg { recording: case.rewind.is_some(), intercept_emit: true, input: case.input.clone(), d2: false };
    let mut xs = boot(&cfg);
    for h in &case.history {
        xs.set_insn_limit(Some(20_000)).unwrap();
        let _ = xs.eval(h);
    }
    let _ = xs.read_stdout();
    xs.set_insn_limit(None).unwrap();
    xs
}

#[derive(Clone, Debug)]
struct Profile {
    /// instruction meter after the whole submission (build-time instructions included)
    meter: usize,
    /// meter after the build, before the first run-time instruction
    meter_build: usize,
    steps: usize,
    max_stack: usize,
    /// highest stack length reached *by a push* (a step that ended longer than it began)
    push_peak: usize,
    stack0: usize,
    max_heap: usize,
    heap0: usize,
    heap_after_build: usize,
    result: String,
    obs: Obs,
    build_failed: bool,
    /// the watchdog ended the profile run: needs are unknown
    cut: bool,
}

/// Unlimited twin, stepped instruction by instruction (the watchdog is the only limit).
fn profile(case: &Case) -> Profile {
    let mut xs = prepare(case);
    let stack0 = xs.verif_data_len();
    let heap0 = xs.verif_heap_len();
    xs.set_insn_limit(Some(WATCHDOG)).unwrap();
    let mut max_stack = stack0;
    let mut push_peak = 0usize;
    let mut max_heap = heap0;
    let mut steps = 0;
    let mut cut = false;
    let _ = xs.verif_watch_take();
    let r = xs.compile(&case.program);
    // what the build itself did (meta blocks and immediate words run inside compile())
    let wb = xs.verif_watch_take();
    let meter_build = xs.verif_insn_meter();
    let heap_after_build = xs.verif_heap_len();
    max_heap = max_heap.max(heap_after_build).max(wb.max_heap);
    max_stack = max_stack.max(xs.verif_data_len()).max(wb.max_stack);
    if wb.max_stack > stack0 {
        // anything above the initial length was reached by a push
        push_peak = push_peak.max(wb.max_stack);
    }
    let build_failed = r.is_err();
    let mut result = r;
    if result.is_ok() {
        while xs.is_running() {
            if steps >= STEP_CAP {
                cut = true;
                break;
            }
            let before = xs.verif_data_len();
            match xs.next() {
                Ok(()) => {
                    steps += 1;
                    let after = xs.verif_data_len();
                    if after > before {
                        push_peak = push_peak.max(after);
                    }
                    max_stack = max_stack.max(after);
                    max_heap = max_heap.max(xs.verif_heap_len());
                }
                Err(e) => {
                    if let Xerr::ErrorMsg(m) = &e {
                        if is_limit_msg(m, Some("insn")) {
                            cut = true;
                        }
                    }
                    // a failing instruction may have pushed before failing
                    let after = xs.verif_data_len();
                    if after > before {
                        push_peak = push_peak.max(after);
                    }
                    max_stack = max_stack.max(after);
                    result = Err(e);
                    break;
                }
            }
        }
    } else if let Err(Xerr::ErrorMsg(m)) = &result {
        if is_limit_msg(m, Some("insn")) {
            cut = true;
        }
    }
    let meter = xs.verif_insn_meter();
    Profile {
        meter,
        meter_build,
        steps,
        max_stack,
        push_peak,
        stack0,
        max_heap,
        heap0,
        heap_after_build,
        result: render_result(&result),
        obs: observe(&mut xs),
        build_failed,
        cut,
    }
}

fn limit_err(r: &Xresult, kind: Kind) -> bool {
    is_limit_err(r, Some(kind.name()))
}

struct Bounds {
    n: Option<usize>,
    s: Option<usize>,
    h: Option<usize>,
    stack_at_set: usize,
    heap_at_set: usize,
    /// instructions that really executed since the limit was set (hook H4, independent of the meter)
    executed: u64,
}

/// Hook H4: what fetch_and_run really did since the last look, wherever it ran (run, next, eval and
/// the build-time runs of meta blocks and immediate words), sampled at every instruction.
fn check_watch(xs: &mut Xstate, b: &mut Bounds, when: &str) -> Outcome {
    let w = xs.verif_watch_take();
    b.executed += w.insns;
    if let Some(n) = b.n {
        if b.executed > n as u64 {
            return Err(Violation::new(
                "C14.hard",
                "insn-executed",
                format!("{}: {} instructions executed after an instruction limit of {} was set", when, b.executed, n),
            ));
        }
    }
    if let Some(s) = b.s {
        if w.max_stack > s.max(b.stack_at_set) {
            return Err(Violation::new(
                "C14.hard",
                "stack-peak",
                format!("{}: the data stack held {} items at some instruction, limit {} (held {} when the limit was set)", when, w.max_stack, s, b.stack_at_set),
            ));
        }
    }
    if let Some(h) = b.h {
        if w.max_heap > h.max(b.heap_at_set) {
            return Err(Violation::new(
                "C14.hard",
                "heap-peak",
                format!("{}: the heap held {} cells at some instruction, limit {} (held {} when the limit was set)", when, w.max_heap, h, b.heap_at_set),
            ));
        }
    }
    Ok(())
}

fn check_invariants(xs: &Xstate, b: &Bounds, when: &str) -> Outcome {
    if let Some(n) = b.n {
        let m = xs.verif_insn_meter();
        if m > n {
            return Err(Violation::new("C14.hard", "insn", format!("{}: instruction meter {} exceeds the limit {}", when, m, n)));
        }
    }
    if let Some(s) = b.s {
        let len = xs.verif_data_len();
        if len > s.max(b.stack_at_set) {
            return Err(Violation::new(
                "C14.hard",
                "stack",
                format!("{}: data stack holds {} items, limit {} (held {} when the limit was set)", when, len, s, b.stack_at_set),
            ));
        }
    }
    if let Some(h) = b.h {
        let len = xs.verif_heap_len();
        if len > h.max(b.heap_at_set) {
            return Err(Violation::new(
                "C14.hard",
                "heap",
                format!("{}: heap holds {} cells, limit {} (held {} when the limit was set)", when, len, h, b.heap_at_set),
            ));
        }
    }
    Ok(())
}

const PROBES: &[(&str, &str)] = &[
    ("arith", "11 22 + 33 assert-eq"),
    ("define", ": zzrp1 5 ; zzrp1 5 assert-eq"),
    ("var", "77 var zzrv1 zzrv1 77 assert-eq"),
    ("loop", "0 3 0 do I + loop 3 assert-eq"),
    ("cond", "1 2 < if 8 else 9 then 8 assert-eq"),
];

/// after a trip: limits cleared, every probe must return Ok within its known instruction count
fn recovery(xs: &mut Xstate, st: &mut Stats, kind: Kind) -> Outcome {
    xs.set_insn_limit(None).unwrap();
    xs.set_stack_limit(None).unwrap();
    xs.set_heap_limit(None).unwrap();
    for (name, src) in PROBES {
        // bounded liveness: each probe needs fewer than 40 instructions
        xs.set_insn_limit(Some(40)).unwrap();
        let r = xs.eval(src);
        st.count("probe.recovery_probe_run");
        if let Err(e) = r {
            return Err(Violation::new(
                "C14.recover",
                format!("{}:{}", kind.name(), name),
                format!("after a {} limit trip and with all limits cleared, the probe `{}` failed: {}", kind.name(), src, render_err(&e)),
            ));
        }
    }
    xs.set_insn_limit(None).unwrap();
    Ok(())
}

/// One experiment: fresh party, limit armed, program driven, oracles evaluated.
fn experiment(case: &Case, p: &Profile, t: &Trip, st: &mut Stats) -> Outcome {
    // an instruction limit is its own watchdog; keep it below the harness step cap
    let t = &Trip { kind: t.kind, value: if t.kind == Kind::Insn { t.value.min(2 * WATCHDOG) } else { t.value }, at_step: t.at_step };
    let mut xs = prepare(case);
    let mut b = Bounds { n: None, s: None, h: None, stack_at_set: 0, heap_at_set: 0, executed: 0 };
    let arm = |xs: &mut Xstate, b: &mut Bounds| {
        b.stack_at_set = xs.verif_data_len();
        b.heap_at_set = xs.verif_heap_len();
        let _ = xs.verif_watch_take();
        b.executed = 0;
        match t.kind {
            Kind::Insn => {
                xs.set_insn_limit(Some(t.value)).unwrap();
                b.n = Some(t.value);
            }
            Kind::Stack => {
                xs.set_stack_limit(Some(t.value)).unwrap();
                b.s = Some(t.value);
            }
            Kind::Heap => {
                xs.set_heap_limit(Some(t.value)).unwrap();
                b.h = Some(t.value);
            }
        }
    };
    st.event(t.kind.name(), t.value);
    let mid = case.style == Style::CompileStep && t.at_step > 0;
    // the harness's own watchdog, so that a broken limit cannot hang the run
    if t.kind != Kind::Insn || mid {
        xs.set_insn_limit(Some(WATCHDOG)).unwrap();
    }
    if !mid {
        arm(&mut xs, &mut b);
    }
    let mut steps_after_set = 0usize;
    let result: Xresult = match case.style {
        Style::Eval => xs.eval(&case.program),
        Style::CompileRun => xs.compile(&case.program).and_then(|_| xs.run()),
        Style::CompileStep => match xs.compile(&case.program) {
            Err(e) => Err(e),
            Ok(()) => {
                check_invariants(&xs, &b, "after the build")?;
                if !mid {
                    check_watch(&mut xs, &mut b, "during the build")?;
                }
                let mut res = Ok(());
                let mut steps = 0usize;
                let mut armed = !mid;
                let mut rewound = false;
                while xs.is_running() {
                    if !armed && steps == t.at_step {
                        arm(&mut xs, &mut b);
                        armed = true;
                        st.count("probe.limit_set_between_steps");
                    }
                    if steps >= STEP_CAP + 10 {
                        return Err(Violation::new(
                            "C14.hard",
                            "no-stop",
                            format!("the program was still running after {} steps under {} limit {}", steps, t.kind.name(), t.value),
                        ));
                    }
                    if let Some((at, k)) = case.rewind {
                        if steps == at && !rewound {
                            rewound = true;
                            // not back beyond the instant the limit was set: restoring an older,
                                // larger stack is not growth (DESIGN §8.8)
                            for _ in 0..k.min(steps_after_set) {
                                if xs.rnext().is_err() {
                                    break;
                                }
                                st.count("probe.reverse_steps_under_a_limit");
                            }
                            check_invariants(&xs, &b, "after reverse steps")?;
                        }
                    }
                    match xs.next() {
                        Ok(()) => {
                            steps += 1;
                            if armed {
                                steps_after_set += 1;
                            }
                            check_invariants(&xs, &b, "after a step")?;
                            if armed {
                                check_watch(&mut xs, &mut b, "during a step")?;
                            }
                        }
                        Err(e) => {
                            check_invariants(&xs, &b, "after a failed step")?;
                            if armed {
                                check_watch(&mut xs, &mut b, "during a failed step")?;
                            }
                            res = Err(e);
                            break;
                        }
                    }
                }
                st.insns += steps as u64;
                res
            }
        },
    };
    check_invariants(&xs, &b, "after the call")?;
    check_watch(&mut xs, &mut b, "during the call")?;
    if let (Some(n), Style::CompileStep) = (b.n, case.style) {
        if steps_after_set > n {
            return Err(Violation::new("C14.hard", "insn-steps", format!("{} instructions executed after an instruction limit of {} was set", steps_after_set, n)));
        }
    }
    let rr = render_result(&result);
    st.log(&rr);
    let tripped = limit_err(&result, t.kind);
    if tripped {
        st.count(match t.kind {
            Kind::Insn => "fault.insn_limit_trip",
            Kind::Stack => "fault.stack_limit_trip",
            Kind::Heap => "fault.heap_limit_trip",
        });
        if t.kind == Kind::Insn && !mid && t.value < p.meter_build {
            st.count("probe.trip_inside_meta_block");
        }
        if xs.verif_dump().frames.len() > 0 {
            st.count("probe.trip_inside_call");
        }
    }
    // needs are known when the profile ran to the end and the limit was set before the submission
    if !p.cut && !mid && !(case.rewind.is_some() && case.style == Style::CompileStep) {
        // `need`: the smallest limit value under which the unlimited twin's run fits.
        // must_fail below it; must_pass from need + slack on. The stack profile is taken after each
        // instruction (inside compile() too, through hook H4), so a word that pushes temporaries
        // is covered by a slack of 2.
        // `fail_below`: every limit value under it is certainly exceeded. `pass_from`: every value
        // from it on is certainly not exceeded. Between the two nothing is asserted.
        let (fail_below, pass_from) = match t.kind {
            Kind::Insn => (p.meter, p.meter),
            Kind::Stack => (p.push_peak, p.max_stack + 2),
            Kind::Heap => {
                let need = if p.max_heap > p.heap0 { p.max_heap } else { 0 };
                (need, need)
            }
        };
        let need = fail_below;
        if t.value >= pass_from {
            if rr != p.result {
                return Err(Violation::new(
                    "C14.spurious",
                    format!("{}:result", t.kind.name()),
                    format!("{} limit {} is not exceeded (need {}), yet the result is {} instead of {}", t.kind.name(), t.value, need, rr, p.result),
                ));
            }
            let o = observe(&mut xs);
            if let Some(d) = p.obs.diff(&o) {
                return Err(Violation::new(
                    "C14.spurious",
                    format!("{}:state", t.kind.name()),
                    format!("{} limit {} is not exceeded (need {}), yet the final state differs: {}", t.kind.name(), t.value, need, d),
                ));
            }
            st.count("probe.limit_not_exceeded");
        } else if t.value < fail_below {
            // the limit is exceeded: the call must fail, and with the limit error (a deterministic
            // program cannot meet a different error before the point where its twin was fine)
            if result.is_ok() {
                return Err(Violation::new(
                    "C14.hard",
                    format!("{}:completed", t.kind.name()),
                    format!("the program needs {} but completed under {} limit {}", need, t.kind.name(), t.value),
                ));
            }
            if !tripped {
                // it failed, which is all the statement asks; that it failed with something that
                // does not read like a limit error is only counted
                st.count("probe.exceeded_limit_failed_with_another_error");
            }
        }
    }
    // "after the limit is set" does not end with the first evaluation: the limits stay armed
    // while more sources are submitted, accepted or rejected
    for i in 0..case.follow_ups {
        let _ = xs.eval("#( 1 2 + drop 3 4 + drop #) zzunknownword");
        check_invariants(&xs, &b, "after a rejected follow-up source")?;
        check_watch(&mut xs, &mut b, "during a rejected follow-up source")?;
        let _ = if i % 2 == 0 { xs.eval(&case.program) } else { xs.compile(&case.program).and_then(|_| xs.run()) };
        check_invariants(&xs, &b, "after a follow-up evaluation")?;
        check_watch(&mut xs, &mut b, "during a follow-up evaluation")?;
        st.count("probe.follow_up_evaluations_under_the_same_limits");
    }
    // the host defines variables too (a plugin loading its context, a mapped file's handle): with the
    // heap limit still armed the heap may not grow past it whoever asks and whatever is stored
    if t.kind == Kind::Heap {
        let _ = xs.defvar("zzhostv1".into(), Cell::from(1i64));
        check_invariants(&xs, &b, "after a host defvar")?;
        let _ = xs.defvar_anonymous(Cell::from_any(0u8));
        check_invariants(&xs, &b, "after a host defvar of a host object")?;
        let _ = xeh::d2_plugin::load(&mut xs);
        check_invariants(&xs, &b, "after loading the canvas plugin")?;
        st.count("probe.host_definitions_under_heap_limit");
    }
    if tripped {
        st.nontrivial = true;
        recovery(&mut xs, st, t.kind)?;
    }
    st.state(dump_hash(&xs.verif_dump()));
    Ok(())
}

fn enumerated_trips(p: &Profile) -> Vec<Trip> {
    let mut v = Vec::new();
    if p.cut {
        return v;
    }
    for n in 0..=(p.meter + 1) {
        v.push(Trip { kind: Kind::Insn, value: n, at_step: 0 });
    }
    for s in 0..=(p.max_stack + 1) {
        v.push(Trip { kind: Kind::Stack, value: s, at_step: 0 });
    }
    // below the heap the interpreter booted with nothing can even be defined; start a little under it
    for h in p.heap0.saturating_sub(2)..=(p.max_heap + 1) {
        v.push(Trip { kind: Kind::Heap, value: h, at_step: 0 });
    }
    v
}

impl Engine for Limits {
    type Case = Case;
    const NAME: &'static str = "limits";
    const PROP: &'static str = "C14";
    const RULE: &'static str = "one case = (input, accepted history, program, drive style, limit experiments); each experiment arms one limit (instruction / stack / heap) at a value on, just below or just above what an unlimited stepped twin needed, before the submission or between two steps. Thorough enumerates every value 0..need+1 of all three limits per program. Distinct = distinct (limit kind, value) sequences; non-trivial = at least one limit actually tripped.";
    const REAL: &'static str = "xeh compiler and VM under set_insn_limit / set_stack_limit / set_heap_limit, all generated words, recovery probes through eval";
    const STUB: &'static str = "process stdout (captured)";

    fn generate(rng: &mut Rng, tier: Tier) -> Case {
        let mut f = Features::swarm(rng);
        f.immediates = rng.chance(1, 4);
        f.errors = *rng.pick(&[0, 0, 0, 10]);
        let input_len = *rng.pick(&[0usize, 64]);
        let input = random_bytes(rng, input_len);
        let mut history = Vec::new();
        let mut env = Env::default();
        let mut stack: Vec<Ty> = Vec::new();
        let mut twin = boot(&BootCfg { recording: false, intercept_emit: true, input: input.clone(), d2: false });
        // constants holding whole collections (one push brings many items within reach of unbox /
        // foreach), and something left on the stack by an earlier evaluation
        let with_consts = rng.chance(1, 2);
        if with_consts {
            let h = "#( [ 1 2 3 4 ] const zgV4 #) #( { 1 \"a\" 2 \"b\" 3 \"c\" } const zgM3 #)".to_string();
            let _ = twin.eval(&h);
            history.push(h);
            if rng.chance(2, 3) {
                let h = (*rng.pick(&["11", "11 22", "11 22 33", "\"s\" |ff| 7"])).to_string();
                let _ = twin.eval(&h);
                history.push(h);
            }
        }
        for _ in 0..rng.below(3) {
            let n = 3 + rng.below(20);
            let mut g = Gen::new(rng, f.clone(), env.clone(), "h");
            let (src, st2) = g.source(n, &stack);
            let env2 = g.env.clone();
            let snapshot = twin.clone();
            twin.set_insn_limit(Some(20_000)).unwrap();
            if twin.eval(&src).is_ok() {
                history.push(src);
                env = env2;
                stack = st2;
            } else {
                twin = snapshot;
                env.counter = env2.counter;
            }
        }
        let program = match rng.below(20) {
            // deliberately non-terminating and stack-flooding programs
            0 => "begin 1 drop repeat".to_string(),
            1 => "begin 1 repeat".to_string(),
            2 => ": zzf zzf ; zzf".to_string(),
            3 => "begin [ 1 2 3 ] unbox repeat".to_string(),
            4 => "0 var zzq begin zzq 1 + ! zzq zzq dup repeat".to_string(),
            5 => "#( begin 1 repeat #)".to_string(),
            6 => "1 if #( 100000 0 do I loop #) then".to_string(),
            _ => {
                let n = 3 + rng.below(50);
                let mut g = Gen::new(rng, f, env, "p");
                let (program, _) = g.source(n, &stack);
                // every way the data stack or the heap grows, plain and at build time (where what
                // earlier evaluations left on the stack is hidden from the block but still counts)
                const GROWTH: &[&str] = &[
                    "[ 1 2 3 ] unbox",
                    "#( [ 1 2 3 4 ] unbox + + + #)",
                    "#( [ 1 2 ] unbox [ 3 4 5 ] unbox + + + + #)",
                    "1 2 3 3 collect",
                    "#( 1 2 3 3 collect length #)",
                    "#( 1 2 3 4 5 + + + + #)",
                    "#( [ 1 2 3 ] dup dup length #)",
                    "[ 7 8 9 ] let [ zga & zgb ] zga zgb",
                    "{ 1 \"a\" 2 \"b\" } foreach I loop",
                    "5 ^{ 1 \"a\" ^} dup tags",
                    "#( 5 ^{ 1 \"a\" ^} dup tags drop #)",
                    "enum zgE : zgA [ 1 2 3 ] unbox + + = zgB endenum zgB",
                    ": zgf local a a a a a + + + ; 2 zgf",
                    "#( 3 0 do I loop + + #)",
                    "1 var zgv 2 var zgw zgv zgw",
                    "#( 1 2 3 ~)",
                    "[ 1 [ 2 [ 3 ] unbox ] unbox ] unbox",
                    // late-bound words called while the source is still being built
                    "late zgl : zgu zgl 1 + ; : zgl 5 ; #( zgu zgu zgu + + #)",
                    "late zgl : zgu zgl zgl + ; : zgl 5 ; #( 0 4 0 do zgu + loop #)",
                    "late zgl : zgu zgl ; #( 3 const zgl #) #( zgu zgu zgu zgu + + + #)",
                    ": zgi immediate 1 2 3 + + ; zgi zgi zgi",
                ];
                const GROWTH_CONST: &[&str] = &[
                    "zgV4 unbox",
                    "#( zgV4 unbox + + + #)",
                    "#( zgV4 unbox zgV4 unbox + + + + + + + #)",
                    "#( zgV4 dup dup length #)",
                    "zgV4 foreach I loop",
                    "#( 0 zgV4 foreach I + loop #)",
                    "zgM3 foreach I loop",
                    "zgV4 let [ zga zgb & zgc ] zga zgb zgc",
                    "#( zgV4 4 collect length #)",
                ];
                let frag = if with_consts && rng.chance(2, 3) { *rng.pick(GROWTH_CONST) } else { *rng.pick(GROWTH) };
                match rng.below(if with_consts { 3 } else { 4 }) {
                    0 => format!("{} {}", program, frag),
                    1 => format!("{} {}", frag, program),
                    2 if with_consts => frag.to_string(),
                    _ => program,
                }
            }
        };
        let style = *rng.pick(&[Style::Eval, Style::CompileRun, Style::CompileStep]);
        let follow_ups = if rng.chance(1, 3) { 1 + rng.below(3) } else { 0 };
        let rewind = if style == Style::CompileStep && rng.chance(1, 3) { Some((1 + rng.below(12), 1 + rng.below(6))) } else { None };
        let mut case = Case { input, history, program, style, trips: Vec::new(), enumerate: false, follow_ups, rewind };
        if tier == Tier::Thorough && rng.chance(1, 2) {
            case.enumerate = true;
            return case;
        }
        // place the limits relative to what the unlimited twin needs
        let p = profile(&case);
        let nt = 2 + rng.below(5);
        for _ in 0..nt {
            let kind = *rng.pick(&[Kind::Insn, Kind::Insn, Kind::Stack, Kind::Stack, Kind::Heap]);
            let (base, need) = match kind {
                Kind::Insn => (0, p.meter),
                Kind::Stack => (p.stack0.min(p.push_peak), p.push_peak.max(p.max_stack)),
                Kind::Heap => (p.heap0, p.max_heap),
            };
            let value = match rng.below(9) {
                0 => 0,
                1 => 1,
                2 => need.saturating_sub(1),
                3 => need,
                4 => need + 1,
                5 => base,
                6 => 1 << 40,
                _ => {
                    if need > base {
                        base + rng.below(need - base + 1)
                    } else {
                        rng.below(need + 2)
                    }
                }
            };
            let at_step = if style == Style::CompileStep && p.steps > 0 && rng.chance(1, 3) { 1 + rng.below(p.steps) } else { 0 };
            case.trips.push(Trip { kind, value, at_step });
        }
        case
    }

    fn execute(case: &Case, st: &mut Stats) -> Outcome {
        let p = profile(case);
        st.log(&p.result);
        st.log_u64(p.meter as u64);
        if p.cut {
            st.count("probe.profile_cut_by_watchdog");
        }
        if p.build_failed {
            st.count("probe.build_failed");
        }
        if p.meter_build > 0 {
            st.count("probe.build_time_instructions");
        }
        let trips = if case.enumerate { enumerated_trips(&p) } else { case.trips.clone() };
        if case.enumerate {
            st.count("probe.enumerated_programs");
            st.add("enumerated_experiments", trips.len() as u64);
        }
        for t in &trips {
            st.count("experiments");
            if let Err(mut v) = experiment(case, &p, t, st) {
                v.detail = format!("[{} limit {} at step {}] {}", t.kind.name(), t.value, t.at_step, v.detail);
                return Err(v);
            }
        }
        Ok(())
    }

    fn shrink(case: &Case) -> Vec<Case> {
        let mut out = Vec::new();
        if case.enumerate {
            // turn the enumeration into the single failing experiment
            let p = profile(case);
            let mut st = Stats::new();
            for t in enumerated_trips(&p) {
                if experiment(case, &p, &t, &mut st).is_err() {
                    let mut c = case.clone();
                    c.enumerate = false;
                    c.trips = vec![t];
                    out.push(c);
                    break;
                }
            }
            return out;
        }
        for i in 0..case.trips.len() {
            if case.trips.len() > 1 {
                let mut c = case.clone();
                c.trips = vec![case.trips[i].clone()];
                out.push(c);
            }
        }
        for i in 0..case.history.len() {
            let mut c = case.clone();
            c.history.remove(i);
            out.push(c);
        }
        for s in shrink_source(&case.program) {
            let mut c = case.clone();
            c.program = s;
            out.push(c);
        }
        for i in 0..case.trips.len() {
            let t = &case.trips[i];
            if t.at_step > 0 {
                let mut c = case.clone();
                c.trips[i].at_step = 0;
                out.push(c);
            }
            if t.value > 0 {
                for v in [0, t.value / 2, t.value - 1] {
                    if v != t.value {
                        let mut c = case.clone();
                        c.trips[i].value = v;
                        out.push(c);
                    }
                }
            }
        }
        for i in 0..case.history.len() {
            for s in shrink_source(&case.history[i]) {
                let mut c = case.clone();
                c.history[i] = s;
                out.push(c);
            }
        }
        if !case.input.is_empty() {
            let mut c = case.clone();
            c.input.clear();
            out.push(c);
        }
        if case.style != Style::Eval {
            let mut c = case.clone();
            c.style = Style::Eval;
            out.push(c);
        }
        if case.follow_ups > 0 {
            let mut c = case.clone();
            c.follow_ups -= 1;
            out.push(c);
        }
        if let Some((a, k)) = case.rewind {
            let mut c = case.clone();
            c.rewind = None;
            out.push(c);
            if k > 1 {
                let mut c = case.clone();
                c.rewind = Some((a, k - 1));
                out.push(c);
            }
        }
        out
    }

    fn to_json(c: &Case) -> Json {
        let trips: Vec<Json> =
            c.trips.iter().map(|t| crate::jobj! {"kind" => t.kind.name(), "value" => t.value, "at_step" => t.at_step}).collect();
        crate::jobj! {
            "input" => hex_encode(&c.input),
            "history" => strs(&c.history),
            "program" => c.program.clone(),
            "style" => format!("{:?}", c.style),
            "trips" => Json::Arr(trips),
            "enumerate" => c.enumerate,
            "follow_ups" => c.follow_ups,
            "rewind_at" => c.rewind.map(|r| r.0),
            "rewind_k" => c.rewind.map(|r| r.1)
        }
    }

    fn from_json(j: &Json) -> Result<Case, String> {
        let mut trips = Vec::new();
        for t in j.f_arr("trips")? {
            trips.push(Trip {
                kind: Kind::parse(&t.f_str("kind")?).ok_or("bad kind")?,
                value: t.f_usize("value")?,
                at_step: t.f_usize("at_step")?,
            });
        }
        let style = match j.f_str("style")?.as_str() {
            "Eval" => Style::Eval,
            "CompileRun" => Style::CompileRun,
            "CompileStep" => Style::CompileStep,
            _ => return Err("bad style".into()),
        };
        Ok(Case {
            input: hex_decode(&j.f_str("input")?)?,
            history: json_strs(j, "history")?,
            program: j.f_str("program")?,
            style,
            trips,
            enumerate: j.f_bool("enumerate")?,
            follow_ups: j.get("follow_ups").and_then(|x| x.int()).unwrap_or(0) as usize,
            rewind: match (j.get("rewind_at").and_then(|x| x.int()), j.get("rewind_k").and_then(|x| x.int())) {
                (Some(a), Some(k)) => Some((a as usize, k as usize)),
                _ => None,
            },
        })
    }
}
