//! Simulator core: engine interface, per-run statistics, shard runner (child process),
//! minimiser, replay files. The supervisor lives in `supervisor.rs`.
use crate::json::Json;
use crate::rng::{Fnv, Rng};
use std::cell::RefCell;
use std::collections::{BTreeMap, HashSet};
use std::panic::{catch_unwind, AssertUnwindSafe};

#[derive(Clone, Copy, Debug, PartialEq)]
pub enum Tier {
    Quick,
    Thorough,
}

impl Tier {
    pub fn name(&self) -> &'static str {
        match self {
            Tier::Quick => "quick",
            Tier::Thorough => "thorough",
        }
    }
    pub fn parse(s: &str) -> Option<Tier> {
        match s {
            "quick" => Some(Tier::Quick),
            "thorough" => Some(Tier::Thorough),
            _ => None,
        }
    }
}

/// A property violation. `(oracle, sig)` is its identity: minimisation must preserve it and
/// known findings are matched on it. `detail` is free text for humans.
#[derive(Clone, Debug, PartialEq)]
pub struct Violation {
    pub oracle: String,
    pub sig: String,
    pub detail: String,
}

impl Violation {
    pub fn new(oracle: &str, sig: impl Into<String>, detail: impl Into<String>) -> Violation {
        // details quote sources and values; a megabyte-long source would otherwise end up in
        // protocol lines and reports
        let mut detail: String = detail.into();
        if detail.len() > 6000 {
            let mut cut = 3000;
            while !detail.is_char_boundary(cut) {
                cut -= 1;
            }
            let mut tail_at = detail.len() - 1500;
            while !detail.is_char_boundary(tail_at) {
                tail_at += 1;
            }
            detail = format!("{} ...[{} bytes left out]... {}", &detail[..cut], tail_at - cut, &detail[tail_at..]);
        }
        Violation { oracle: oracle.to_string(), sig: sig.into(), detail }
    }
    pub fn same_class(&self, other: &Violation) -> bool {
        self.oracle == other.oracle && self.sig == other.sig
    }
    pub fn to_json(&self) -> Json {
        crate::jobj! {"oracle" => self.oracle.clone(), "sig" => self.sig.clone(), "detail" => self.detail.clone()}
    }
    pub fn from_json(j: &Json) -> Result<Violation, String> {
        Ok(Violation { oracle: j.f_str("oracle")?, sig: j.f_str("sig")?, detail: j.f_str("detail").unwrap_or_default() })
    }
}

pub type Outcome = Result<(), Violation>;

/// Everything measured during one run. Engines feed it; nothing here draws randomness
/// or reads a clock.
pub struct Stats {
    pub counters: BTreeMap<&'static str, u64>,
    log: Fnv,
    sched: Fnv,
    pub nontrivial: bool,
    pub insns: u64,
    pub events: u64,
    pub states: Vec<u64>,
}

impl Stats {
    pub fn new() -> Stats {
        Stats {
            counters: BTreeMap::new(),
            log: Fnv::new(),
            sched: Fnv::new(),
            nontrivial: false,
            insns: 0,
            events: 0,
            states: Vec::new(),
        }
    }
    /// count a fault that fired ("fault.x"), a probe that was reached ("probe.x"), or anything else
    pub fn count(&mut self, key: &'static str) {
        *self.counters.entry(key).or_insert(0) += 1;
    }
    pub fn add(&mut self, key: &'static str, n: u64) {
        *self.counters.entry(key).or_insert(0) += n;
    }
    /// one scheduler event: (action kind, party). Feeds the schedule hash and the event log.
    pub fn event(&mut self, kind: &str, party: usize) {
        self.events += 1;
        self.sched.str(kind);
        self.sched.u64(party as u64);
        self.log.str(kind);
        self.log.u64(party as u64);
    }
    /// an observation (result, dump, output); feeds the event log only
    pub fn log(&mut self, s: &str) {
        self.log.str(s);
    }
    pub fn log_u64(&mut self, x: u64) {
        self.log.u64(x);
    }
    /// a visited state, by content hash
    pub fn state(&mut self, h: u64) {
        self.states.push(h);
    }
    pub fn state_str(&mut self, s: &str) {
        let mut f = Fnv::new();
        f.str(s);
        self.states.push(f.get());
    }
    pub fn log_hash(&self) -> u64 {
        self.log.get()
    }
    pub fn sched_hash(&self) -> u64 {
        self.sched.get()
    }
}

pub trait Engine {
    type Case: Clone;
    const NAME: &'static str;
    const PROP: &'static str;
    /// one-line statement of what counts as non-trivial / distinct for the evidence file
    const RULE: &'static str;
    /// which components ran real code and which a stub
    const REAL: &'static str;
    const STUB: &'static str;
    /// Build one explicit case from the PRNG. May execute xeh on a dry twin to place faults
    /// inside operations; must be a pure function of the PRNG state and the code.
    fn generate(rng: &mut Rng, tier: Tier) -> Self::Case;
    /// Execute the case against real xeh code and evaluate the oracles. Pure function of the case.
    fn execute(case: &Self::Case, st: &mut Stats) -> Outcome;
    /// Smaller variants of a failing case, most aggressive first.
    fn shrink(case: &Self::Case) -> Vec<Self::Case>;
    fn to_json(case: &Self::Case) -> Json;
    fn from_json(j: &Json) -> Result<Self::Case, String>;
}

// ---------------------------------------------------------------- panic capture

thread_local! {
    static LAST_PANIC: RefCell<Option<(String, String)>> = RefCell::new(None);
}

pub fn install_panic_hook() {
    std::panic::set_hook(Box::new(|info| {
        let loc = info
            .location()
            .map(|l| {
                let f = l.file();
                // keep the path relative to the crate so that it does not depend on where /repo is
                let f = f.rsplit_once("/src/").map(|x| format!("src/{}", x.1)).unwrap_or_else(|| f.to_string());
                (f, l.line())
            })
            .unwrap_or_else(|| ("?".to_string(), 0));
        let msg = if let Some(s) = info.payload().downcast_ref::<&str>() {
            s.to_string()
        } else if let Some(s) = info.payload().downcast_ref::<String>() {
            s.clone()
        } else {
            "<non-string panic>".to_string()
        };
        let site = format!("{}:{}", loc.0, loc.1);
        LAST_PANIC.with(|p| *p.borrow_mut() = Some((site, msg)));
    }));
}

/// digits replaced by '#', so that a panic message is a stable signature
pub fn normalise_msg(msg: &str) -> String {
    let mut out = String::new();
    let mut in_num = false;
    for c in msg.chars() {
        if c.is_ascii_digit() {
            if !in_num {
                out.push('#');
            }
            in_num = true;
        } else {
            in_num = false;
            out.push(c);
        }
    }
    if out.len() > 120 {
        let mut cut = 120;
        while !out.is_char_boundary(cut) {
            cut -= 1;
        }
        out.truncate(cut);
    }
    out
}

/// Run a closure that calls into xeh; a panic becomes a violation of oracle "panic".
pub fn guard<T>(f: impl FnOnce() -> T) -> Result<T, Violation> {
    LAST_PANIC.with(|p| *p.borrow_mut() = None);
    match catch_unwind(AssertUnwindSafe(f)) {
        Ok(v) => Ok(v),
        Err(_) => {
            let (site, msg) = LAST_PANIC.with(|p| p.borrow_mut().take()).unwrap_or_else(|| ("?".into(), "?".into()));
            let file = site.split(':').next().unwrap_or("?").to_string();
            Err(Violation::new(
                "panic",
                format!("{}::{}", file, normalise_msg(&msg)),
                format!("panic at {}: {}", site, msg),
            ))
        }
    }
}

/// Execute one case with the panic guard around the whole engine.
pub fn run_case<E: Engine>(case: &E::Case, st: &mut Stats) -> Outcome {
    // Whatever a case writes to the process's stdout (an `emit` or print that is not intercepted,
    // which minimisation can produce by switching interception off) goes to a simulated sink
    // (hook H2), not to the real one: the supervisor reads protocol lines from there. Engines that
    // need a particular environment install their own on top of this.
    let had_env = xeh::file::verif_env::with(|_| ()).is_some();
    if !had_env {
        xeh::file::verif_env::install(xeh::file::verif_env::Env::default());
    }
    let r = match guard(|| E::execute(case, st)) {
        Ok(r) => r,
        Err(v) => Err(v),
    };
    if !had_env {
        xeh::file::verif_env::uninstall();
    }
    r
}

// ---------------------------------------------------------------- replay files

/// which build profile this binary is: "checked" = overflow checks and debug assertions on
pub fn profile_name() -> &'static str {
    if cfg!(debug_assertions) {
        "checked"
    } else {
        "release"
    }
}

pub fn replay_json<E: Engine>(seed: Option<u64>, case: &E::Case, v: Option<&Violation>, note: &str) -> Json {
    crate::jobj! {
        "format" => "xehsim-replay-1",
        "engine" => E::NAME,
        "property" => E::PROP,
        "profile" => profile_name(),
        "seed" => seed.map(|s| s as i128),
        "note" => note,
        "violation" => v.map(|v| v.to_json()),
        "case" => E::to_json(case)
    }
}

// ---------------------------------------------------------------- minimiser

pub struct MinimiseReport {
    pub tried: usize,
    pub accepted: usize,
}

/// Greedy delta debugging: keep any shrink candidate that still fails in the same class.
pub fn minimise<E: Engine>(
    case: &E::Case,
    target: &Violation,
    budget: usize,
    test: &mut dyn FnMut(&E::Case) -> Option<Violation>,
) -> (E::Case, Violation, MinimiseReport) {
    let mut cur = case.clone();
    let mut cur_v = target.clone();
    let mut rep = MinimiseReport { tried: 0, accepted: 0 };
    // besides the number of candidates, a wall-clock allowance: with cases that take seconds each
    // (megabyte inputs, long hauls) a few thousand candidates would take an hour. Stopping early
    // only means a less minimal replay file; it still replays.
    let started = std::time::Instant::now();
    'outer: loop {
        let cands = E::shrink(&cur);
        for c in cands {
            if rep.tried >= budget || started.elapsed().as_secs() >= 90 {
                break 'outer;
            }
            rep.tried += 1;
            if let Some(v) = test(&c) {
                if v.same_class(target) {
                    cur = c;
                    cur_v = v;
                    rep.accepted += 1;
                    continue 'outer;
                }
            }
        }
        break;
    }
    (cur, cur_v, rep)
}

// ---------------------------------------------------------------- known findings

#[derive(Clone, Debug)]
pub struct Finding {
    pub status: String, // "known" | "fixed"
    pub property: String,
    pub oracle: String,
    pub sig: String,
    pub witness: String,
    pub what: String,
}

/// `/verif/known_findings.txt`, one entry per line:
///   known: property=<id> oracle=<o> sig=<s> witness=<path> :: <what fails>
///   fixed: property=<id> <commit> <what failed>
/// Only `known` lines suppress anything. The file is never written at run time.
pub fn load_findings(path: &str) -> Vec<Finding> {
    let text = std::fs::read_to_string(path).unwrap_or_default();
    let mut out = Vec::new();
    for line in text.lines() {
        let line = line.trim();
        if line.is_empty() || line.starts_with('#') {
            continue;
        }
        if let Some(rest) = line.strip_prefix("known:") {
            let (head, what) = rest.split_once("::").unwrap_or((rest, ""));
            let mut f = Finding {
                status: "known".into(),
                property: String::new(),
                oracle: String::new(),
                sig: String::new(),
                witness: String::new(),
                what: what.trim().to_string(),
            };
            // sig may contain spaces: it is written as sig=<...> with %20 for spaces
            for tok in head.split_whitespace() {
                if let Some(v) = tok.strip_prefix("property=") {
                    f.property = v.to_string();
                } else if let Some(v) = tok.strip_prefix("oracle=") {
                    f.oracle = v.to_string();
                } else if let Some(v) = tok.strip_prefix("sig=") {
                    f.sig = v.replace("%20", " ");
                } else if let Some(v) = tok.strip_prefix("witness=") {
                    f.witness = v.to_string();
                }
            }
            out.push(f);
        } else if let Some(rest) = line.strip_prefix("fixed:") {
            let mut f = Finding {
                status: "fixed".into(),
                property: String::new(),
                oracle: String::new(),
                sig: String::new(),
                witness: String::new(),
                what: rest.trim().to_string(),
            };
            for tok in rest.split_whitespace() {
                if let Some(v) = tok.strip_prefix("property=") {
                    f.property = v.to_string();
                }
            }
            out.push(f);
        }
    }
    out
}

pub fn matches_known(findings: &[Finding], prop: &str, v: &Violation) -> Option<usize> {
    findings
        .iter()
        .position(|f| f.status == "known" && f.property == prop && f.oracle == v.oracle && f.sig == v.sig)
}

// ---------------------------------------------------------------- shard (child process)

pub struct ShardArgs {
    pub tier: Tier,
    pub base_seed: u64,
    pub from: u64,
    pub to: u64,
    pub cur_path: String,
    pub out_path: String,
    pub replay_dir: String,
    pub findings_path: String,
    pub per_run_log: Option<String>,
    pub max_secs: Option<f64>,
    /// run indices the supervisor found to be outside the property's proviso (memory guard): skipped
    pub skip: Vec<u64>,
}

pub fn run_seed(base_seed: u64, i: u64) -> u64 {
    base_seed.wrapping_mul(1 << 32).wrapping_add(i)
}

const DISTINCT_CAP: usize = 4_000_000;

/// Runs seeds `from..to` of one engine, sequentially, in this process. Writes the case about
/// to run into `cur_path` first, so that the supervisor can recover it after an abort or hang.
pub fn shard<E: Engine>(a: &ShardArgs) -> Json {
    use std::io::{Seek, SeekFrom, Write};
    let findings = load_findings(&a.findings_path);
    let mut cur = std::fs::OpenOptions::new().create(true).write(true).truncate(true).open(&a.cur_path).expect("cur file");
    let mut per_run = a.per_run_log.as_ref().map(|p| std::io::BufWriter::new(std::fs::File::create(p).expect("per-run log")));
    let t0 = std::time::Instant::now();
    let mut counters: BTreeMap<&'static str, u64> = BTreeMap::new();
    let mut runs = 0u64;
    let mut insns = 0u64;
    let mut events = 0u64;
    let mut batch_hash = 0u64;
    let mut scheds: HashSet<u64> = HashSet::new();
    let mut scheds_all: HashSet<u64> = HashSet::new();
    let mut states: HashSet<u64> = HashSet::new();
    let mut truncated = false;
    let mut samples: Vec<Json> = Vec::new();
    let mut violations: Vec<Json> = Vec::new();
    let mut known_hits: BTreeMap<usize, u64> = BTreeMap::new();
    let mut seen_classes: Vec<Violation> = Vec::new();
    let mut stopped_early = false;
    let mut i = a.from;
    while i < a.to {
        if let Some(m) = a.max_secs {
            if (runs & 63) == 0 && t0.elapsed().as_secs_f64() > m {
                stopped_early = true;
                break;
            }
        }
        if a.skip.contains(&i) {
            i += 1;
            continue;
        }
        let seed = run_seed(a.base_seed, i);
        // marker first: if generation itself dies the supervisor still knows the seed
        let marker = format!("{{\"seed\":{},\"index\":{},\"generating\":true}}\n", seed, i);
        cur.set_len(0).ok();
        cur.seek(SeekFrom::Start(0)).ok();
        cur.write_all(marker.as_bytes()).ok();
        let mut rng = Rng::new(seed);
        let case = match guard(|| E::generate(&mut rng, a.tier)) {
            Ok(c) => c,
            Err(v) => {
                // a panic while generating (dry twin) is reported like any other violation, replay = seed
                violations.push(crate::jobj! {"seed" => seed, "index" => i, "violation" => v.to_json(), "replay" => Json::Null, "generation" => true});
                break;
            }
        };
        let cj = replay_json::<E>(Some(seed), &case, None, "in flight");
        let text = cj.to_string();
        cur.set_len(0).ok();
        cur.seek(SeekFrom::Start(0)).ok();
        cur.write_all(format!("{{\"seed\":{},\"index\":{}}}\n", seed, i).as_bytes()).ok();
        cur.write_all(text.as_bytes()).ok();
        let mut st = Stats::new();
        let res = run_case::<E>(&case, &mut st);
        runs += 1;
        insns += st.insns;
        events += st.events;
        for (k, v) in st.counters.iter() {
            *counters.entry(*k).or_insert(0) += *v;
        }
        let lh = st.log_hash();
        let mut f = Fnv::new();
        f.u64(seed);
        f.u64(lh);
        f.u64(if res.is_ok() { 0 } else { 1 });
        batch_hash = batch_hash.wrapping_add(f.get());
        if let Some(w) = per_run.as_mut() {
            writeln!(w, "{} {:016x} {}", seed, lh, if res.is_ok() { "ok" } else { "viol" }).ok();
        }
        if scheds_all.len() < DISTINCT_CAP {
            scheds_all.insert(st.sched_hash());
        } else {
            truncated = true;
        }
        if st.nontrivial {
            if scheds.len() < DISTINCT_CAP {
                scheds.insert(st.sched_hash());
            } else {
                truncated = true;
            }
        }
        for s in st.states.iter() {
            if states.len() < DISTINCT_CAP {
                states.insert(*s);
            } else {
                truncated = true;
            }
        }
        if samples.len() < 3 && (st.nontrivial || i + 1 == a.to) {
            samples.push(crate::jobj! {"seed" => seed, "case" => E::to_json(&case)});
        }
        if let Err(v) = res {
            if seen_classes.iter().any(|x| x.same_class(&v)) {
                // same class already minimised and classified in this shard
                if let Some(k) = matches_known(&findings, E::PROP, &v) {
                    *known_hits.entry(k).or_insert(0) += 1;
                }
                i += 1;
                continue;
            }
            // minimise in-process while the same class keeps failing
            let mut beats = 0u64;
            let mut test = |c: &E::Case| -> Option<Violation> {
                // heartbeat: the in-flight marker keeps changing while candidates are tried, so the
                // supervisor does not take a long minimisation for a hang of the case
                beats += 1;
                cur.set_len(0).ok();
                cur.seek(SeekFrom::Start(0)).ok();
                cur.write_all(format!("{{\"seed\":{},\"index\":{},\"minimising\":{}}}\n", seed, i, beats).as_bytes()).ok();
                cur.write_all(text.as_bytes()).ok();
                let mut s2 = Stats::new();
                run_case::<E>(c, &mut s2).err()
            };
            let (min_case, min_v, rep) = minimise::<E>(&case, &v, 3000, &mut test);
            seen_classes.push(min_v.clone());
            if let Some(k) = matches_known(&findings, E::PROP, &min_v) {
                *known_hits.entry(k).or_insert(0) += 1;
                i += 1;
                continue;
            }
            let path = format!("{}/{}-{}-{}.json", a.replay_dir, E::PROP, E::NAME, seed);
            let note = format!("minimised: {} candidates tried, {} accepted; original seed {}", rep.tried, rep.accepted, seed);
            let rj = replay_json::<E>(Some(seed), &min_case, Some(&min_v), &note);
            std::fs::create_dir_all(&a.replay_dir).ok();
            std::fs::write(&path, rj.to_pretty()).expect("write replay");
            violations.push(crate::jobj! {"seed" => seed, "index" => i, "violation" => min_v.to_json(), "replay" => path});
            // a new class stops this shard: on a broken tree nearly every run fails
            let max_classes: usize = std::env::var("XEHSIM_MAX_CLASSES").ok().and_then(|s| s.parse().ok()).unwrap_or(3);
            if violations.len() >= max_classes {
                stopped_early = true;
                break;
            }
        }
        i += 1;
    }
    cur.set_len(0).ok();
    cur.seek(SeekFrom::Start(0)).ok();
    cur.write_all(b"{\"done\":true}\n").ok();
    let mut cj: Vec<(String, Json)> = Vec::new();
    for (k, v) in counters.iter() {
        cj.push((k.to_string(), Json::from(*v)));
    }
    let to_hex = |s: &HashSet<u64>| -> Json {
        let mut v: Vec<u64> = s.iter().cloned().collect();
        v.sort();
        Json::Arr(v.into_iter().map(|x| Json::Str(format!("{:x}", x))).collect())
    };
    let out = crate::jobj! {
        "engine" => E::NAME,
        "from" => a.from,
        "to" => a.to,
        "next" => i,
        "runs" => runs,
        "insns" => insns,
        "events" => events,
        "batch_hash" => format!("{:016x}", batch_hash),
        "counters" => Json::Obj(cj),
        "scheds_nontrivial" => to_hex(&scheds),
        "scheds_all" => to_hex(&scheds_all),
        "states" => to_hex(&states),
        "truncated" => truncated,
        "stopped_early" => stopped_early,
        "samples" => Json::Arr(samples),
        "violations" => Json::Arr(violations),
        "known_hits" => Json::Obj(known_hits.iter().map(|(k, v)| (k.to_string(), Json::from(*v))).collect()),
        "wall_s" => t0.elapsed().as_secs_f64()
    };
    if let Some(w) = per_run.as_mut() {
        w.flush().ok();
    }
    std::fs::write(&a.out_path, out.to_string()).expect("write shard output");
    out
}

/// Re-execute the case stored in a replay file; returns the violation if it still fails.
pub fn replay<E: Engine>(j: &Json) -> Result<Option<Violation>, String> {
    let case = E::from_json(j.get("case").ok_or("no case in replay file")?)?;
    let mut st = Stats::new();
    Ok(run_case::<E>(&case, &mut st).err())
}

/// Regenerate the case of one seed (used to replay a generation-time crash and for debugging).
pub fn regenerate<E: Engine>(seed: u64, tier: Tier) -> Json {
    let mut rng = Rng::new(seed);
    let case = E::generate(&mut rng, tier);
    replay_json::<E>(Some(seed), &case, None, "regenerated from seed")
}
