//! The only source of randomness in the simulator: xoshiro256** seeded through splitmix64.
//! Hand-written so that no crate upgrade can ever change what a seed means.

#[derive(Clone, Debug)]
pub struct Rng {
    s: [u64; 4],
}

fn splitmix(x: &mut u64) -> u64 {
    *x = x.wrapping_add(0x9E3779B97F4A7C15);
    let mut z = *x;
    z = (z ^ (z >> 30)).wrapping_mul(0xBF58476D1CE4E5B9);
    z = (z ^ (z >> 27)).wrapping_mul(0x94D049BB133111EB);
    z ^ (z >> 31)
}

impl Rng {
    pub fn new(seed: u64) -> Rng {
        let mut x = seed;
        let s = [splitmix(&mut x), splitmix(&mut x), splitmix(&mut x), splitmix(&mut x)];
        Rng { s }
    }

    /// independent stream derived from (seed, stream id)
    pub fn derive(seed: u64, stream: u64) -> Rng {
        let mut x = seed ^ stream.wrapping_mul(0xD6E8FEB86659FD93).rotate_left(17);
        let a = splitmix(&mut x);
        Rng::new(a ^ stream)
    }

    pub fn next_u64(&mut self) -> u64 {
        let result = self.s[1].wrapping_mul(5).rotate_left(7).wrapping_mul(9);
        let t = self.s[1] << 17;
        self.s[2] ^= self.s[0];
        self.s[3] ^= self.s[1];
        self.s[1] ^= self.s[2];
        self.s[0] ^= self.s[3];
        self.s[2] ^= t;
        self.s[3] = self.s[3].rotate_left(45);
        result
    }

    /// uniform in 0..n (n > 0)
    pub fn below(&mut self, n: usize) -> usize {
        debug_assert!(n > 0);
        // multiply-shift; bias is irrelevant at these sizes
        (((self.next_u64() >> 32) * (n as u64)) >> 32) as usize
    }

    /// uniform in lo..=hi
    pub fn range(&mut self, lo: i64, hi: i64) -> i64 {
        debug_assert!(lo <= hi);
        lo + self.below((hi - lo + 1) as usize) as i64
    }

    /// true with probability num/den
    pub fn chance(&mut self, num: usize, den: usize) -> bool {
        self.below(den) < num
    }

    pub fn pick<'a, T>(&mut self, xs: &'a [T]) -> &'a T {
        &xs[self.below(xs.len())]
    }

    /// index drawn according to integer weights
    pub fn weighted(&mut self, weights: &[u32]) -> usize {
        let total: u64 = weights.iter().map(|w| *w as u64).sum();
        debug_assert!(total > 0);
        let mut x = (self.next_u64() % total) as i64;
        for (i, w) in weights.iter().enumerate() {
            x -= *w as i64;
            if x < 0 {
                return i;
            }
        }
        weights.len() - 1
    }

    /// small numbers most of the time, occasionally up to `max`
    pub fn small(&mut self, max: usize) -> usize {
        if max == 0 {
            return 0;
        }
        match self.below(8) {
            0..=3 => self.below(max.min(3) + 1),
            4..=6 => self.below(max.min(8) + 1),
            _ => self.below(max + 1),
        }
    }
}

/// FNV-1a, used for event-log, schedule and state hashes
#[derive(Clone, Copy, Debug)]
pub struct Fnv(pub u64);

impl Fnv {
    pub fn new() -> Fnv {
        Fnv(0xcbf29ce484222325)
    }
    pub fn bytes(&mut self, b: &[u8]) {
        for x in b {
            self.0 ^= *x as u64;
            self.0 = self.0.wrapping_mul(0x100000001b3);
        }
    }
    pub fn str(&mut self, s: &str) {
        self.bytes(s.as_bytes());
        self.bytes(&[0xff]);
    }
    pub fn u64(&mut self, x: u64) {
        self.bytes(&x.to_le_bytes());
    }
    pub fn get(&self) -> u64 {
        // final avalanche so that low bits are usable
        let mut z = self.0;
        z = (z ^ (z >> 30)).wrapping_mul(0xBF58476D1CE4E5B9);
        z = (z ^ (z >> 27)).wrapping_mul(0x94D049BB133111EB);
        z ^ (z >> 31)
    }
}
