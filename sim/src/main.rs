//! xehsim — deterministic simulation with fault injection for anykey111/xeh.
mod core;
mod engines;
mod gen;
mod json;
mod rng;
mod supervisor;
mod xutil;

/// Memory guard of the processes that execute cases (shard and replay): C08 holds "provided ...
/// requested allocation sizes are modest", and xeh has no memory limit of its own. A single request
/// of 4 GiB or more, or a live footprint above 3 GiB, ends the process with a distinctive exit code;
/// the supervisor decides what that means for the engine at hand (supervisor::EXIT_*).
mod memguard {
    use std::alloc::{GlobalAlloc, Layout, System};
    use std::sync::atomic::{AtomicBool, AtomicUsize, Ordering::Relaxed};

    pub static ENABLED: AtomicBool = AtomicBool::new(false);
    static LIVE: AtomicUsize = AtomicUsize::new(0);
    pub const SINGLE_MAX: usize = 1 << 32;
    pub const LIVE_MAX: usize = 3 << 30;

    extern "C" {
        fn _exit(code: i32) -> !;
    }

    pub struct Guard;

    #[inline]
    fn charge(size: usize) {
        if size >= SINGLE_MAX && ENABLED.load(Relaxed) {
            unsafe { _exit(crate::supervisor::EXIT_IMMODEST_REQUEST) }
        }
        let live = LIVE.fetch_add(size, Relaxed) + size;
        if live > LIVE_MAX && ENABLED.load(Relaxed) {
            unsafe { _exit(crate::supervisor::EXIT_FOOTPRINT) }
        }
    }

    unsafe impl GlobalAlloc for Guard {
        unsafe fn alloc(&self, l: Layout) -> *mut u8 {
            charge(l.size());
            System.alloc(l)
        }
        unsafe fn alloc_zeroed(&self, l: Layout) -> *mut u8 {
            charge(l.size());
            System.alloc_zeroed(l)
        }
        unsafe fn dealloc(&self, p: *mut u8, l: Layout) {
            LIVE.fetch_sub(l.size(), Relaxed);
            System.dealloc(p, l)
        }
        unsafe fn realloc(&self, p: *mut u8, l: Layout, new_size: usize) -> *mut u8 {
            if new_size > l.size() {
                charge(new_size - l.size());
            } else {
                LIVE.fetch_sub(l.size() - new_size, Relaxed);
            }
            System.realloc(p, l, new_size)
        }
    }
}

#[global_allocator]
static GLOBAL: memguard::Guard = memguard::Guard;

use crate::core::{Engine, ShardArgs, Tier, Violation};
use crate::json::Json;
use crate::supervisor::{EngineInfo, EngineReport, FreshReplay, RunPlan};
use std::collections::BTreeMap;

macro_rules! dispatch {
    ($name:expr, $f:ident ( $($args:expr),* )) => {
        match $name {
            "drive" => $f::<engines::drive::Drive>($($args),*),
            "reverse" => $f::<engines::reverse::Reverse>($($args),*),
            "limits" => $f::<engines::limits::Limits>($($args),*),
            "reject" => $f::<engines::reject::Reject>($($args),*),
            "cursor" => $f::<engines::cursor::Cursor>($($args),*),
            "chaos" => $f::<engines::chaos::Chaos>($($args),*),
            "bitshare" => $f::<engines::bitshare::Bitshare>($($args),*),
            "clones" => $f::<engines::clones::Clones>($($args),*),
            #[cfg(feature = "repl")]
            "repl" => $f::<engines::repl::Repl>($($args),*),
            other => {
                eprintln!("unknown engine {}", other);
                std::process::exit(2);
            }
        }
    };
}

const ENGINES: &[&str] = &["drive", "reverse", "limits", "reject", "bitshare", "clones", "cursor", "chaos", "repl"];

fn info_of<E: Engine>() -> EngineInfo {
    EngineInfo { name: E::NAME, prop: E::PROP, rule: E::RULE, real: E::REAL, stub: E::STUB }
}

fn engine_info(name: &str) -> EngineInfo {
    dispatch!(name, info_of())
}

/// which engines decide a property, and how many runs each tier gets
fn plan_for(prop: &str, tier: Tier) -> Vec<(&'static str, u64, &'static str)> {
    let q = tier == Tier::Quick;
    let v: Vec<(&'static str, u64)> = match prop {
        // run in both build profiles: overflow-checked arithmetic panics where release wraps
        "C08" => {
            let n = if q { 400_000 } else { 10_000_000 };
            return vec![("chaos", n, "release"), ("chaos", n, "checked")];
        }
        "C06" => {
            let n = if q { 150_000 } else { 6_000_000 };
            return vec![("cursor", n, "release"), ("cursor", n, "checked")];
        }
        "C15" => vec![("drive", if q { 400_000 } else { 10_000_000 })],
        "C10" => vec![("reject", if q { 200_000 } else { 60_000 })],
        "C04" => vec![("bitshare", if q { 1_500_000 } else { 40_000_000 })],
        "C03" => vec![("clones", if q { 100_000 } else { 3_000_000 }), ("repl", if q { 100_000 } else { 1_000_000 })],
        "C14" => vec![("limits", if q { 100_000 } else { 400_000 })],
        "C02" => vec![("reverse", if q { 200_000 } else { 4_000_000 })],
        _ => vec![],
    };
    v.into_iter().map(|(e, n)| (e, n, "release")).collect()
}

fn level_for(prop: &str, tier: Tier) -> &'static str {
    // the manifest claims one category per property; the enumeration tiers are described in the coverage keys
    let _ = (prop, tier);
    "exploration"
}

struct Args {
    pos: Vec<String>,
    opts: BTreeMap<String, String>,
    flags: Vec<String>,
}

fn parse_args(a: &[String]) -> Args {
    let mut pos = Vec::new();
    let mut opts = BTreeMap::new();
    let mut flags = Vec::new();
    let mut i = 0;
    const FLAGS: &[&str] = &["--machine", "--keep"];
    while i < a.len() {
        if a[i].starts_with("--") {
            if FLAGS.contains(&a[i].as_str()) {
                flags.push(a[i].clone());
            } else if i + 1 < a.len() {
                opts.insert(a[i].clone(), a[i + 1].clone());
                i += 1;
            }
        } else {
            pos.push(a[i].clone());
        }
        i += 1;
    }
    Args { pos, opts, flags }
}

impl Args {
    fn opt(&self, k: &str) -> Option<&str> {
        self.opts.get(k).map(|s| s.as_str())
    }
    fn num(&self, k: &str, d: u64) -> u64 {
        self.opt(k).and_then(|s| s.parse().ok()).unwrap_or(d)
    }
    fn flag(&self, k: &str) -> bool {
        self.flags.iter().any(|f| f == k)
    }
}

fn verif_dir() -> String {
    std::env::var("VERIF_DIR").unwrap_or_else(|_| "/verif".to_string())
}

fn env_seed() -> u64 {
    std::env::var("VERIF_SEED").ok().and_then(|s| s.parse().ok()).unwrap_or(1)
}

/// Everything that calls into xeh runs on a thread with a large stack, so that deeply nested
/// values cannot overflow the harness itself.
fn big_stack<T: Send + 'static>(f: impl FnOnce() -> T + Send + 'static) -> T {
    std::thread::Builder::new().stack_size(512 << 20).spawn(f).expect("spawn").join().expect("worker thread")
}

fn do_shard<E: Engine>(a: ShardArgs) {
    core::shard::<E>(&a);
}

fn do_replay<E: Engine>(j: &Json) -> Result<Option<Violation>, String> {
    if j.get("regenerate").is_some() {
        let seed = j.f_int("seed")? as u64;
        let tier = Tier::parse(&j.f_str("tier").unwrap_or_else(|_| "quick".into())).unwrap_or(Tier::Quick);
        let rj = core::regenerate::<E>(seed, tier);
        return core::replay::<E>(&rj);
    }
    core::replay::<E>(j)
}

fn do_gen<E: Engine>(seed: u64, tier: Tier) -> Json {
    core::regenerate::<E>(seed, tier)
}

fn do_shrink_candidates<E: Engine>(j: &Json) -> Result<Vec<Json>, String> {
    let case = E::from_json(j.get("case").ok_or("no case")?)?;
    Ok(E::shrink(&case).iter().map(|c| E::to_json(c)).collect())
}

fn cmd_replay(a: &Args) -> i32 {
    let path = match a.pos.get(1) {
        Some(p) => p.clone(),
        None => {
            eprintln!("usage: xehsim replay <file>");
            return 2;
        }
    };
    let text = match std::fs::read_to_string(&path) {
        Ok(t) => t,
        Err(e) => {
            println!("cannot read {}: {}", path, e);
            return 2;
        }
    };
    let j = match Json::parse(&text) {
        Ok(j) => j,
        Err(e) => {
            println!("cannot parse {}: {}", path, e);
            return 2;
        }
    };
    let engine = j.f_str("engine").unwrap_or_default();
    let prop = j.f_str("property").unwrap_or_default();
    let machine = a.flag("--machine");
    // a case found in the overflow-checked build replays in that build
    let profile = j.f_str("profile").unwrap_or_else(|_| "release".to_string());
    if profile != core::profile_name() {
        let other = supervisor::exe_for(&profile);
        if !other.exists() {
            println!("replay error: this case needs the {} build of the simulator ({} missing; run ./check setup)", profile, other.display());
            return 2;
        }
        let mut cmd = std::process::Command::new(other);
        cmd.arg("replay").arg(&path);
        if machine {
            cmd.arg("--machine");
        }
        // become that binary (exec) rather than spawn it: whoever supervises this process and
        // kills it after a timeout must hit the process that is actually running the case, or a
        // hanging case is left behind spinning for ever
        #[cfg(unix)]
        {
            use std::os::unix::process::CommandExt;
            let e = cmd.exec();
            println!("replay error: {}", e);
            return 2;
        }
        #[cfg(not(unix))]
        return match cmd.status() {
            Ok(st) => st.code().unwrap_or(3),
            Err(e) => {
                println!("replay error: {}", e);
                2
            }
        };
    }
    let res = big_stack(move || {
        core::install_panic_hook();
        let name: &str = &engine;
        dispatch!(name, do_replay(&j))
    });
    match res {
        Err(e) => {
            println!("replay error: {}", e);
            2
        }
        Ok(None) => {
            if !machine {
                println!("replay of {} passes: no violation", path);
            }
            0
        }
        Ok(Some(v)) => {
            if machine {
                // on a line of its own whatever the case itself wrote to stdout before
                println!("\nREPLAY-VIOLATION {}", v.to_json().to_string());
            } else {
                println!("VIOLATION property={} replay={}", prop, path);
                println!("  oracle: {}  sig: {}", v.oracle, v.sig);
                println!("  {}", v.detail);
            }
            1
        }
    }
}

/// Minimise a crash/hang replay file in place, using sub-process replays as the test.
fn cmd_minimise_crash(a: &Args) -> i32 {
    let path = match a.pos.get(1) {
        Some(p) => p.clone(),
        None => return 2,
    };
    let timeout: f64 = a.opt("--timeout").and_then(|s| s.parse().ok()).unwrap_or(20.0);
    let budget = a.num("--budget", 150) as usize;
    let text = std::fs::read_to_string(&path).unwrap_or_default();
    let mut j = match Json::parse(&text) {
        Ok(j) => j,
        Err(_) => return 2,
    };
    if j.get("regenerate").is_some() {
        return 0;
    }
    let engine = j.f_str("engine").unwrap_or_default();
    let classify = |fr: &FreshReplay| -> Option<String> {
        match fr {
            FreshReplay::Died(h) => Some(format!("abort:{}", h)),
            FreshReplay::Hung => Some("hang".to_string()),
            _ => None,
        }
    };
    let target = match classify(&supervisor::fresh_replay(&path, timeout)) {
        Some(t) => t,
        None => return 0,
    };
    let tmp = format!("{}.cand", path);
    let mut tried = 0;
    let mut accepted = 0;
    // every candidate that still hangs costs the whole timeout: five minutes in all, then the
    // replay file stays as minimal as it got
    let started = std::time::Instant::now();
    'outer: loop {
        let name: &str = &engine;
        let cands = match dispatch!(name, do_shrink_candidates(&j)) {
            Ok(c) => c,
            Err(_) => break,
        };
        for c in cands {
            if tried >= budget || started.elapsed().as_secs() >= 300 {
                break 'outer;
            }
            tried += 1;
            let mut j2 = j.clone();
            if let Json::Obj(o) = &mut j2 {
                for (k, v) in o.iter_mut() {
                    if k == "case" {
                        *v = c.clone();
                    }
                }
            }
            std::fs::write(&tmp, j2.to_pretty()).ok();
            if classify(&supervisor::fresh_replay(&tmp, timeout)).as_deref() == Some(&target) {
                j = j2;
                accepted += 1;
                continue 'outer;
            }
        }
        break;
    }
    let _ = std::fs::remove_file(&tmp);
    if let Json::Obj(o) = &mut j {
        for (k, v) in o.iter_mut() {
            if k == "note" {
                *v = Json::Str(format!("{}; minimised by sub-process replay: {} tried, {} accepted", target, tried, accepted));
            }
        }
    }
    std::fs::write(&path, j.to_pretty()).ok();
    0
}

fn cmd_shard(a: &Args) -> i32 {
    let engine = a.opt("--engine").unwrap_or("").to_string();
    let sa = ShardArgs {
        tier: Tier::parse(a.opt("--tier").unwrap_or("quick")).unwrap_or(Tier::Quick),
        base_seed: a.num("--seed", 1),
        from: a.num("--from", 0),
        to: a.num("--to", 1),
        cur_path: a.opt("--cur").unwrap_or("/dev/null").to_string(),
        out_path: a.opt("--out").unwrap_or("/dev/null").to_string(),
        replay_dir: a.opt("--replay-dir").unwrap_or("/verif/replays").to_string(),
        findings_path: a.opt("--findings").unwrap_or("/verif/known_findings.txt").to_string(),
        per_run_log: a.opt("--per-run-log").map(|s| s.to_string()),
        max_secs: a.opt("--max-secs").and_then(|s| s.parse().ok()),
        skip: a.opt("--skip").map(|s| s.split(',').filter_map(|x| x.parse().ok()).collect()).unwrap_or_default(),
    };
    big_stack(move || {
        core::install_panic_hook();
        let name: &str = &engine;
        dispatch!(name, do_shard(sa));
    });
    0
}

fn jobs() -> usize {
    std::env::var("VERIF_JOBS")
        .ok()
        .and_then(|s| s.parse().ok())
        .unwrap_or_else(|| std::thread::available_parallelism().map(|n| n.get()).unwrap_or(4))
}

/// `budget_override` is Some(text) when the run count was changed on the command line: such a run is
/// not the registered check, so its evidence goes to evidence/adhoc/ and never replaces the file the
/// registered quick/thorough command writes.
fn write_evidence(prop: &str, tier: Tier, seed: u64, reports: &[(EngineInfo, EngineReport)], wall: f64, nviol: usize, known: &[String], budget_override: Option<&str>) -> String {
    let level = level_for(prop, tier);
    let mut evaluations = 0u64;
    let mut distinct = 0u64;
    let mut rules = Vec::new();
    let mut samples = Vec::new();
    let mut engines_j = Vec::new();
    let mut assumptions: Vec<String> = Vec::new();
    for (info, r) in reports {
        evaluations += r.runs;
        distinct += r.scheds_nontrivial.len() as u64;
        rules.push(format!("[{}] {}", info.name, info.rule));
        for s in &r.samples {
            samples.push(crate::jobj! {"engine" => info.name, "sample" => s.clone()});
        }
        let mut faults: BTreeMap<String, u64> = BTreeMap::new();
        let mut probes: BTreeMap<String, u64> = BTreeMap::new();
        let mut other: BTreeMap<String, u64> = BTreeMap::new();
        for (k, v) in &r.counters {
            if let Some(n) = k.strip_prefix("fault.") {
                faults.insert(n.to_string(), *v);
            } else if let Some(n) = k.strip_prefix("probe.") {
                probes.insert(n.to_string(), *v);
            } else {
                other.insert(k.clone(), *v);
            }
        }
        let zero_probes: Vec<String> = probes.iter().filter(|(_, v)| **v == 0).map(|(k, _)| k.clone()).collect();
        engines_j.push(crate::jobj! {
            "engine" => info.name,
            "runs" => r.runs,
            "wall_s" => r.wall_s,
            "runs_per_hour" => if r.wall_s > 0.0 { (r.runs as f64 / r.wall_s * 3600.0) as u64 } else { 0 },
            "simulated_time_vm_instructions" => r.insns,
            "scheduler_events" => r.events,
            "faults_fired" => &faults,
            "probes_reached" => &probes,
            "probes_stuck_at_zero" => zero_probes,
            "counters" => &other,
            "distinct_schedules" => r.scheds_all.len(),
            "distinct_schedules_nontrivial" => r.scheds_nontrivial.len(),
            "distinct_states" => r.states.len(),
            "distinct_counts_are_lower_bounds" => r.truncated,
            "batch_hash" => format!("{:016x}", r.batch_hash),
            "real_components" => info.real,
            "stubbed_components" => info.stub,
            "harness_errors" => r.harness_errors.clone(),
            "violations" => Json::Arr(r.violations.iter().map(|(v, p)| crate::jobj!{"oracle" => v.oracle.clone(), "sig" => v.sig.clone(), "replay" => p.clone()}).collect())
        });
        assumptions.push(format!("[{}] real: {}; stub: {}", info.name, info.real, info.stub));
    }
    assumptions.push("sampling, not proof: a clean batch is evidence over the explored seeds only".to_string());
    assumptions.push("xeh built from /repo's working tree with cargo feature verif_hooks (read-only dump hooks and an environment seam; no behaviour change)".to_string());
    let ev = crate::jobj! {
        "property_id" => prop,
        "tier" => tier.name(),
        "seed" => seed,
        "level" => level,
        "coverage" => crate::jobj! {
            "evaluations" => evaluations,
            "distinct_nontrivial" => distinct,
            "rule" => rules.join(" | "),
            "samples" => Json::Arr(samples),
            "engines" => Json::Arr(engines_j),
            "known_findings_reproduced" => Json::Arr(known.iter().map(|s| Json::Str(s.clone())).collect()),
            "run_budget" => match budget_override {
                None => format!("the {} tier's built-in budget (plan_for in sim/src/main.rs), no command-line override", tier.name()),
                Some(o) => format!("NOT the registered {} check: budget overridden on the command line ({})", tier.name(), o),
            },
            "exhaustive" => false
        },
        "assumptions" => assumptions,
        "wall_s" => wall,
        "violations" => nviol
    };
    let dir = if budget_override.is_some() { format!("{}/evidence/adhoc", verif_dir()) } else { format!("{}/evidence", verif_dir()) };
    std::fs::create_dir_all(&dir).ok();
    let path = format!("{}/{}.json", dir, prop);
    std::fs::write(&path, ev.to_pretty()).expect("write evidence");
    path
}

fn cmd_check(a: &Args) -> i32 {
    let prop = a.opt("--prop").unwrap_or("").to_string();
    let tier = Tier::parse(a.opt("--tier").unwrap_or("quick")).unwrap_or(Tier::Quick);
    let seed = a.opt("--seed").and_then(|s| s.parse().ok()).unwrap_or_else(env_seed);
    let plan = plan_for(&prop, tier);
    if plan.is_empty() {
        eprintln!("property {} is not claimed by any engine", prop);
        return 2;
    }
    let t0 = std::time::Instant::now();
    let vd = verif_dir();
    let findings = core::load_findings(&format!("{}/known_findings.txt", vd));
    let (known_lines, notes, witness_viol) = supervisor::replay_known(&vd, &prop, &findings);
    for l in &known_lines {
        println!("{}", l);
    }
    for n in &notes {
        println!("{}", n);
    }
    let scale: f64 = a.opt("--scale").and_then(|s| s.parse().ok()).unwrap_or(1.0);
    let mut reports = Vec::new();
    let mut nviol = 0;
    let mut harness_err = false;
    for (v, p) in &witness_viol {
        println!("VIOLATION property={} replay={}", prop, p);
        println!("  oracle: {}  sig: {}", v.oracle, v.sig);
        println!("  {}", v.detail);
        nviol += 1;
    }
    for (engine, runs, profile) in plan {
        let runs = a.opt("--runs").and_then(|s| s.parse().ok()).unwrap_or(((runs as f64) * scale).max(1.0) as u64);
        let rp = RunPlan {
            info: engine_info(engine),
            tier,
            base_seed: seed,
            runs,
            jobs: jobs(),
            verif_dir: vd.clone(),
            // CPU seconds one case may take (generation on a dry twin included): the heaviest cases
            // (megabyte inputs, enumerated rejections) need five to ten alone and several times that
            // on a loaded machine
            hang_secs: a.opt("--hang-secs").and_then(|s| s.parse().ok()).unwrap_or(120.0),
            max_secs: a.opt("--max-secs").and_then(|s| s.parse().ok()),
            per_run_log: false,
            profile: profile.to_string(),
        };
        if !supervisor::exe_for(profile).exists() {
            println!("HARNESS-ERROR: the {} build of the simulator is missing ({})", profile, supervisor::exe_for(profile).display());
            harness_err = true;
            continue;
        }
        let r = supervisor::run_engine(&rp);
        let engine_label = format!("{}[{}]", engine, profile);
        let engine: &str = &engine_label;
        println!(
            "[{}] {} runs in {:.1}s ({} nontrivial distinct schedules, {} states, {} VM instructions)",
            engine,
            r.runs,
            r.wall_s,
            r.scheds_nontrivial.len(),
            r.states.len(),
            r.insns
        );
        for (k, n) in &r.known_hits {
            if let Some(f) = findings.get(*k) {
                println!("note: search hit the listed finding {} times: {}", n, f.what);
            }
        }
        for (v, p) in &r.violations {
            println!("VIOLATION property={} replay={}", prop, p);
            println!("  oracle: {}  sig: {}", v.oracle, v.sig);
            println!("  {}", v.detail);
            nviol += 1;
        }
        for e in &r.harness_errors {
            println!("HARNESS-ERROR: {}", e);
            harness_err = true;
        }
        let mut info = engine_info(rp.info.name);
        if profile != "release" {
            info.name = Box::leak(format!("{}[{}]", rp.info.name, profile).into_boxed_str());
        }
        reports.push((info, r));
    }
    let overrides: Vec<String> = ["--runs", "--scale", "--max-secs"].iter().filter_map(|k| a.opt(k).map(|v| format!("{} {}", k, v))).collect();
    let budget_override = if overrides.is_empty() { None } else { Some(overrides.join(" ")) };
    let ev_path = write_evidence(&prop, tier, seed, &reports, t0.elapsed().as_secs_f64(), nviol, &known_lines, budget_override.as_deref());
    if budget_override.is_some() {
        println!("note: run budget overridden on the command line; evidence written to {} (the registered evidence file is untouched)", ev_path);
    }
    if nviol > 0 {
        1
    } else if harness_err {
        2
    } else {
        println!("OK property={} tier={} seed={}", prop, tier.name(), seed);
        0
    }
}

/// Determinism self-test: every engine, the same seeds, separate processes, 1 / 4 / 16 workers;
/// the per-run event-log hashes must be identical.
fn cmd_selftest(a: &Args) -> i32 {
    let runs = a.num("--runs", 2000);
    let seed = a.num("--seed", env_seed());
    let only = a.opt("--engine").map(|s| s.to_string());
    let vd = verif_dir();
    let mut bad = 0;
    for engine in ENGINES {
        if let Some(o) = &only {
            if o != engine {
                continue;
            }
        }
        let mut logs: Vec<(String, BTreeMap<u64, String>)> = Vec::new();
        for (label, j) in [("j1", 1usize), ("j4", 4), ("j16", 16), ("j16-again", 16)] {
            let rp = RunPlan {
                info: engine_info(engine),
                tier: Tier::Quick,
                base_seed: seed,
                runs,
                jobs: j,
                verif_dir: vd.clone(),
                hang_secs: 60.0,
                max_secs: None,
                per_run_log: true,
                profile: "release".to_string(),
            };
            let r = supervisor::run_engine(&rp);
            let mut m = BTreeMap::new();
            for p in &r.per_run_logs {
                for line in std::fs::read_to_string(p).unwrap_or_default().lines() {
                    let mut it = line.split(' ');
                    if let (Some(s), Some(h), Some(res)) = (it.next(), it.next(), it.next()) {
                        m.insert(s.parse::<u64>().unwrap_or(0), format!("{} {}", h, res));
                    }
                }
            }
            if let Some(p) = r.per_run_logs.first() {
                if let Some(dir) = std::path::Path::new(p).parent() {
                    let _ = std::fs::remove_dir_all(dir);
                }
            }
            for e in &r.harness_errors {
                println!("HARNESS-ERROR [{} {}]: {}", engine, label, e);
            }
            logs.push((label.to_string(), m));
        }
        let base = &logs[0].1;
        let mut diverged = 0;
        for (label, m) in logs.iter().skip(1) {
            if m.len() != base.len() {
                println!("[{}] {}: {} runs logged vs {} at j1", engine, label, m.len(), base.len());
                diverged += 1;
            }
            for (s, h) in base {
                if m.get(s) != Some(h) {
                    if diverged < 5 {
                        println!("[{}] seed {} diverges between j1 ({}) and {} ({:?})", engine, s, h, label, m.get(s));
                    }
                    diverged += 1;
                }
            }
        }
        println!("[{}] determinism: {} runs x 4 executions, {} divergences", engine, base.len(), diverged);
        bad += diverged;
    }
    if bad == 0 {
        println!("DETERMINISM OK");
        0
    } else {
        1
    }
}

fn cmd_gen(a: &Args) -> i32 {
    let engine = a.opt("--engine").unwrap_or("drive").to_string();
    let seed = a.num("--seed", 1);
    let index = a.num("--index", 0);
    let tier = Tier::parse(a.opt("--tier").unwrap_or("quick")).unwrap_or(Tier::Quick);
    let s = core::run_seed(seed, index);
    let j = big_stack(move || {
        let name: &str = &engine;
        dispatch!(name, do_gen(s, tier))
    });
    print!("{}", j.to_pretty());
    0
}

fn cmd_eval(a: &Args) -> i32 {
    let mut xs = xeh::state::State::boot().unwrap();
    xs.intercept_stdout(true);
    let lim = a.num("--limit", 100_000) as usize;
    xs.set_insn_limit(Some(lim)).unwrap();
    let cr = a.opt("--style") == Some("compile+run");
    let stack_limit_at = a.opt("--stack-limit").and_then(|s| s.parse::<usize>().ok());
    for (i, src) in a.pos[1..].iter().enumerate() {
        if let (Some(l), true) = (stack_limit_at, i + 2 == a.pos.len()) {
            // armed before the last source
            xs.set_stack_limit(Some(l)).unwrap();
            let _ = xs.verif_watch_take();
        }
        if cr {
            // what a REPL line does: the limit is re-armed, then compile and run
            xs.set_insn_limit(Some(lim)).unwrap();
            let r = xs.compile(src).and_then(|_| xs.run());
            println!("compile+run {:?} -> {:?}", src, r);
        } else {
            let r = xs.eval(src);
            println!("eval {:?} -> {:?}", src, r);
        }
        let n = xs.data_depth();
        let stack: Vec<String> = (0..n).map(|i| format!("{:?}", xs.get_data(i).unwrap())).collect();
        println!("   stack (top first): {:?}", stack);
    }
    println!("watch: {:?}", xs.verif_watch_take());
    let d = xs.verif_dump();
    println!("{:#?}", d);
    0
}

fn main() {
    let argv: Vec<String> = std::env::args().skip(1).collect();
    let a = parse_args(&argv);
    let cmd = a.pos.first().map(|s| s.as_str()).unwrap_or("");
    if cmd == "shard" || cmd == "replay" {
        memguard::ENABLED.store(true, std::sync::atomic::Ordering::Relaxed);
    }
    let code = match cmd {
        "shard" => cmd_shard(&a),
        "replay" => cmd_replay(&a),
        "minimise-crash" => cmd_minimise_crash(&a),
        "check" => cmd_check(&a),
        "selftest-determinism" => cmd_selftest(&a),
        "gen" => cmd_gen(&a),
        "eval" => cmd_eval(&a),
        "words" => {
            let xs = xeh::state::State::boot().unwrap();
            for w in xs.word_list() {
                println!("{}", w);
            }
            0
        }
        _ => {
            eprintln!("usage: xehsim check --prop <id> --tier quick|thorough | replay <file> | selftest-determinism | gen --engine E --seed S --index I | eval <src>..");
            2
        }
    };
    std::process::exit(code);
}
