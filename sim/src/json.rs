//! Minimal JSON value, writer and parser (replay files, evidence, known findings).
use std::collections::BTreeMap;
use std::fmt::Write;

#[derive(Clone, Debug, PartialEq)]
pub enum Json {
    Null,
    Bool(bool),
    Int(i128),
    Float(f64),
    Str(String),
    Arr(Vec<Json>),
    Obj(Vec<(String, Json)>),
}

impl From<&str> for Json {
    fn from(s: &str) -> Json {
        Json::Str(s.to_string())
    }
}
impl From<String> for Json {
    fn from(s: String) -> Json {
        Json::Str(s)
    }
}
impl From<bool> for Json {
    fn from(b: bool) -> Json {
        Json::Bool(b)
    }
}
impl From<usize> for Json {
    fn from(x: usize) -> Json {
        Json::Int(x as i128)
    }
}
impl From<u64> for Json {
    fn from(x: u64) -> Json {
        Json::Int(x as i128)
    }
}
impl From<i64> for Json {
    fn from(x: i64) -> Json {
        Json::Int(x as i128)
    }
}
impl From<i128> for Json {
    fn from(x: i128) -> Json {
        Json::Int(x)
    }
}
impl From<f64> for Json {
    fn from(x: f64) -> Json {
        Json::Float(x)
    }
}
impl<T: Into<Json>> From<Vec<T>> for Json {
    fn from(v: Vec<T>) -> Json {
        Json::Arr(v.into_iter().map(|x| x.into()).collect())
    }
}
impl<T: Into<Json>> From<Option<T>> for Json {
    fn from(v: Option<T>) -> Json {
        match v {
            Some(x) => x.into(),
            None => Json::Null,
        }
    }
}
impl From<&BTreeMap<String, u64>> for Json {
    fn from(m: &BTreeMap<String, u64>) -> Json {
        Json::Obj(m.iter().map(|(k, v)| (k.clone(), Json::from(*v))).collect())
    }
}

#[macro_export]
macro_rules! jobj {
    ($($k:expr => $v:expr),* $(,)?) => {
        $crate::json::Json::Obj(vec![ $( ($k.to_string(), $crate::json::Json::from($v)) ),* ])
    };
}

impl Json {
    pub fn get(&self, key: &str) -> Option<&Json> {
        match self {
            Json::Obj(v) => v.iter().find(|(k, _)| k == key).map(|(_, v)| v),
            _ => None,
        }
    }
    pub fn str(&self) -> Option<&str> {
        match self {
            Json::Str(s) => Some(s),
            _ => None,
        }
    }
    pub fn int(&self) -> Option<i128> {
        match self {
            Json::Int(i) => Some(*i),
            _ => None,
        }
    }
    pub fn boolean(&self) -> Option<bool> {
        match self {
            Json::Bool(b) => Some(*b),
            _ => None,
        }
    }
    pub fn arr(&self) -> Option<&Vec<Json>> {
        match self {
            Json::Arr(a) => Some(a),
            _ => None,
        }
    }
    pub fn is_null(&self) -> bool {
        matches!(self, Json::Null)
    }
    // typed field helpers for decoding replay files
    pub fn f_str(&self, key: &str) -> Result<String, String> {
        self.get(key)
            .and_then(|x| x.str())
            .map(|s| s.to_string())
            .ok_or_else(|| format!("missing string field {}", key))
    }
    pub fn f_int(&self, key: &str) -> Result<i128, String> {
        self.get(key).and_then(|x| x.int()).ok_or_else(|| format!("missing int field {}", key))
    }
    pub fn f_usize(&self, key: &str) -> Result<usize, String> {
        self.f_int(key).map(|x| x as usize)
    }
    pub fn f_bool(&self, key: &str) -> Result<bool, String> {
        self.get(key).and_then(|x| x.boolean()).ok_or_else(|| format!("missing bool field {}", key))
    }
    pub fn f_arr(&self, key: &str) -> Result<&Vec<Json>, String> {
        self.get(key).and_then(|x| x.arr()).ok_or_else(|| format!("missing array field {}", key))
    }
    pub fn f_opt_usize(&self, key: &str) -> Result<Option<usize>, String> {
        match self.get(key) {
            None | Some(Json::Null) => Ok(None),
            Some(Json::Int(i)) => Ok(Some(*i as usize)),
            _ => Err(format!("bad optional int field {}", key)),
        }
    }

    pub fn to_string(&self) -> String {
        let mut s = String::new();
        self.write(&mut s, None, 0);
        s
    }
    pub fn to_pretty(&self) -> String {
        let mut s = String::new();
        self.write(&mut s, Some(1), 0);
        s.push('\n');
        s
    }

    fn write(&self, s: &mut String, indent: Option<usize>, level: usize) {
        let nl = |s: &mut String, level: usize| {
            if let Some(n) = indent {
                s.push('\n');
                for _ in 0..(n * level) {
                    s.push(' ');
                }
            }
        };
        match self {
            Json::Null => s.push_str("null"),
            Json::Bool(b) => s.push_str(if *b { "true" } else { "false" }),
            Json::Int(i) => write!(s, "{}", i).unwrap(),
            Json::Float(f) => {
                if f.is_finite() {
                    let t = format!("{}", f);
                    s.push_str(&t);
                    if !t.contains('.') && !t.contains('e') {
                        s.push_str(".0");
                    }
                } else {
                    s.push_str("null");
                }
            }
            Json::Str(x) => write_str(s, x),
            Json::Arr(a) => {
                if a.is_empty() {
                    s.push_str("[]");
                    return;
                }
                let simple = a.iter().all(|x| !matches!(x, Json::Arr(_) | Json::Obj(_)));
                s.push('[');
                for (i, x) in a.iter().enumerate() {
                    if i > 0 {
                        s.push(',');
                        if simple && indent.is_some() {
                            s.push(' ');
                        }
                    }
                    if !simple {
                        nl(s, level + 1);
                    }
                    x.write(s, indent, level + 1);
                }
                if !simple {
                    nl(s, level);
                }
                s.push(']');
            }
            Json::Obj(o) => {
                if o.is_empty() {
                    s.push_str("{}");
                    return;
                }
                s.push('{');
                for (i, (k, v)) in o.iter().enumerate() {
                    if i > 0 {
                        s.push(',');
                    }
                    nl(s, level + 1);
                    write_str(s, k);
                    s.push(':');
                    if indent.is_some() {
                        s.push(' ');
                    }
                    v.write(s, indent, level + 1);
                }
                nl(s, level);
                s.push('}');
            }
        }
    }

    pub fn parse(text: &str) -> Result<Json, String> {
        let mut p = Parser { b: text.as_bytes(), i: 0 };
        p.ws();
        let v = p.value()?;
        p.ws();
        if p.i != p.b.len() {
            return Err(format!("trailing characters at {}", p.i));
        }
        Ok(v)
    }
}

fn write_str(s: &mut String, x: &str) {
    s.push('"');
    for c in x.chars() {
        match c {
            '"' => s.push_str("\\\""),
            '\\' => s.push_str("\\\\"),
            '\n' => s.push_str("\\n"),
            '\r' => s.push_str("\\r"),
            '\t' => s.push_str("\\t"),
            c if (c as u32) < 0x20 || c == '\u{7f}' => write!(s, "\\u{:04x}", c as u32).unwrap(),
            c => s.push(c),
        }
    }
    s.push('"');
}

struct Parser<'a> {
    b: &'a [u8],
    i: usize,
}

impl<'a> Parser<'a> {
    fn ws(&mut self) {
        while self.i < self.b.len() && (self.b[self.i] as char).is_ascii_whitespace() {
            self.i += 1;
        }
    }
    fn eat(&mut self, c: u8) -> Result<(), String> {
        if self.i < self.b.len() && self.b[self.i] == c {
            self.i += 1;
            Ok(())
        } else {
            Err(format!("expected '{}' at {}", c as char, self.i))
        }
    }
    fn value(&mut self) -> Result<Json, String> {
        self.ws();
        if self.i >= self.b.len() {
            return Err("unexpected end".into());
        }
        match self.b[self.i] {
            b'n' => self.lit("null", Json::Null),
            b't' => self.lit("true", Json::Bool(true)),
            b'f' => self.lit("false", Json::Bool(false)),
            b'"' => Ok(Json::Str(self.string()?)),
            b'[' => {
                self.i += 1;
                let mut v = Vec::new();
                self.ws();
                if self.i < self.b.len() && self.b[self.i] == b']' {
                    self.i += 1;
                    return Ok(Json::Arr(v));
                }
                loop {
                    v.push(self.value()?);
                    self.ws();
                    if self.i < self.b.len() && self.b[self.i] == b',' {
                        self.i += 1;
                        continue;
                    }
                    self.eat(b']')?;
                    return Ok(Json::Arr(v));
                }
            }
            b'{' => {
                self.i += 1;
                let mut v = Vec::new();
                self.ws();
                if self.i < self.b.len() && self.b[self.i] == b'}' {
                    self.i += 1;
                    return Ok(Json::Obj(v));
                }
                loop {
                    self.ws();
                    let k = self.string()?;
                    self.ws();
                    self.eat(b':')?;
                    let val = self.value()?;
                    v.push((k, val));
                    self.ws();
                    if self.i < self.b.len() && self.b[self.i] == b',' {
                        self.i += 1;
                        continue;
                    }
                    self.eat(b'}')?;
                    return Ok(Json::Obj(v));
                }
            }
            _ => self.number(),
        }
    }
    fn lit(&mut self, word: &str, v: Json) -> Result<Json, String> {
        if self.b[self.i..].starts_with(word.as_bytes()) {
            self.i += word.len();
            Ok(v)
        } else {
            Err(format!("bad literal at {}", self.i))
        }
    }
    fn number(&mut self) -> Result<Json, String> {
        let start = self.i;
        let mut is_float = false;
        while self.i < self.b.len() {
            let c = self.b[self.i];
            if c.is_ascii_digit() || c == b'-' || c == b'+' {
                self.i += 1;
            } else if c == b'.' || c == b'e' || c == b'E' {
                is_float = true;
                self.i += 1;
            } else {
                break;
            }
        }
        let t = std::str::from_utf8(&self.b[start..self.i]).unwrap();
        if t.is_empty() {
            return Err(format!("unexpected character at {}", start));
        }
        if is_float {
            t.parse::<f64>().map(Json::Float).map_err(|e| format!("{} at {}", e, start))
        } else {
            t.parse::<i128>().map(Json::Int).map_err(|e| format!("{} at {}", e, start))
        }
    }
    fn string(&mut self) -> Result<String, String> {
        self.eat(b'"')?;
        let mut out: Vec<u8> = Vec::new();
        loop {
            if self.i >= self.b.len() {
                return Err("unterminated string".into());
            }
            let c = self.b[self.i];
            self.i += 1;
            match c {
                b'"' => break,
                b'\\' => {
                    if self.i >= self.b.len() {
                        return Err("unterminated escape".into());
                    }
                    let e = self.b[self.i];
                    self.i += 1;
                    match e {
                        b'"' => out.push(b'"'),
                        b'\\' => out.push(b'\\'),
                        b'/' => out.push(b'/'),
                        b'n' => out.push(b'\n'),
                        b'r' => out.push(b'\r'),
                        b't' => out.push(b'\t'),
                        b'b' => out.push(8),
                        b'f' => out.push(12),
                        b'u' => {
                            let mut cp = self.hex4()?;
                            if (0xD800..0xDC00).contains(&cp) {
                                // surrogate pair
                                if self.b[self.i..].starts_with(b"\\u") {
                                    self.i += 2;
                                    let lo = self.hex4()?;
                                    cp = 0x10000 + ((cp - 0xD800) << 10) + (lo - 0xDC00);
                                }
                            }
                            let ch = char::from_u32(cp).unwrap_or('\u{fffd}');
                            let mut buf = [0u8; 4];
                            out.extend_from_slice(ch.encode_utf8(&mut buf).as_bytes());
                        }
                        _ => return Err(format!("bad escape at {}", self.i)),
                    }
                }
                c => out.push(c),
            }
        }
        String::from_utf8(out).map_err(|e| e.to_string())
    }
    fn hex4(&mut self) -> Result<u32, String> {
        if self.i + 4 > self.b.len() {
            return Err("short \\u escape".into());
        }
        let t = std::str::from_utf8(&self.b[self.i..self.i + 4]).map_err(|e| e.to_string())?;
        self.i += 4;
        u32::from_str_radix(t, 16).map_err(|e| e.to_string())
    }
}
