//! Supervisor: launches shards as child processes, turns aborts and hangs into violations,
//! confirms every violation by replaying its file in a fresh process, merges statistics and
//! writes the evidence file.
use crate::core::{load_findings, Finding, Tier, Violation};
use crate::json::Json;
use std::collections::{BTreeMap, HashSet};
use std::process::{Child, Command, Stdio};
use std::time::{Duration, Instant};

pub struct EngineInfo {
    pub name: &'static str,
    pub prop: &'static str,
    pub rule: &'static str,
    pub real: &'static str,
    pub stub: &'static str,
}

pub struct RunPlan {
    pub info: EngineInfo,
    pub tier: Tier,
    pub base_seed: u64,
    pub runs: u64,
    pub jobs: usize,
    pub verif_dir: String,
    pub hang_secs: f64,
    pub max_secs: Option<f64>,
    pub per_run_log: bool,
    /// build profile of the binary that runs the shards
    pub profile: String,
}

#[derive(Default)]
pub struct EngineReport {
    pub runs: u64,
    pub insns: u64,
    pub events: u64,
    pub batch_hash: u64,
    pub counters: BTreeMap<String, u64>,
    pub scheds_nontrivial: HashSet<u64>,
    pub scheds_all: HashSet<u64>,
    pub states: HashSet<u64>,
    pub truncated: bool,
    pub samples: Vec<Json>,
    /// confirmed, not-known violations: (violation, replay path)
    pub violations: Vec<(Violation, String)>,
    pub known_hits: BTreeMap<usize, u64>,
    pub harness_errors: Vec<String>,
    pub wall_s: f64,
    pub per_run_logs: Vec<String>,
}

/// exit codes of a case-executing process stopped by the memory guard (main.rs memguard)
pub const EXIT_IMMODEST_REQUEST: i32 = 86;
pub const EXIT_FOOTPRINT: i32 = 87;

/// Does the recovered case ask for an immodest allocation itself? True when its calls mention an
/// integer literal of ten or more digits, or entropy (`random`), which is where a size operand
/// beyond 4 GiB can come from. A giant request out of small arguments stays a violation.
fn case_requests_immodest_size(case_text: &str) -> bool {
    let calls = match case_text.find("\"calls\"") {
        Some(i) => &case_text[i..],
        None => case_text,
    };
    let mut run = 0;
    for ch in calls.chars() {
        if ch.is_ascii_digit() {
            run += 1;
            if run >= 10 {
                return true;
            }
        } else {
            run = 0;
        }
    }
    // the same in hexadecimal: 0x followed by nine or more digits
    let b = calls.as_bytes();
    let mut i = 0;
    while i + 1 < b.len() {
        if b[i] == b'0' && (b[i + 1] == b'x' || b[i + 1] == b'X') {
            let n = b[i + 2..].iter().take_while(|c| c.is_ascii_hexdigit() || **c == b'_').count();
            if n >= 9 {
                return true;
            }
        }
        i += 1;
    }
    calls.contains("random")
}

/// C08's proviso: a case stopped by the memory guard is outside the statement
/// when the program itself asked for the memory. Returns the probe to count, or None if the death
/// has to be treated like any other abort.
fn outside_proviso(plan: &RunPlan, code: Option<i32>, cur_path: &str) -> Option<&'static str> {
    // The rule was written for C08; it holds for every engine, since all of them run generated
    // programs that may leave a giant integer on the stack and later reach a size operand with it
    // (typically a failed instruction re-executed with the stack shifted). No other property
    // says anything about memory.
    let _ = &plan.info.prop;
    match code {
        Some(EXIT_FOOTPRINT) => Some("probe.case_abandoned_memory_footprint_over_3GiB"),
        Some(EXIT_IMMODEST_REQUEST) => {
            let text = std::fs::read_to_string(cur_path).unwrap_or_default();
            if case_requests_immodest_size(&text) {
                Some("probe.case_abandoned_immodest_allocation_request")
            } else {
                None
            }
        }
        _ => None,
    }
}

fn marker_index(cur_path: &str) -> Option<u64> {
    let mj = Json::parse(&read_marker(cur_path)).unwrap_or(Json::Null);
    mj.get("index").and_then(|x| x.int()).map(|x| x as u64)
}

fn exe() -> std::path::PathBuf {
    std::env::current_exe().expect("current_exe")
}

/// the simulator binary built with the given profile (sibling target directory)
pub fn exe_for(profile: &str) -> std::path::PathBuf {
    let me = exe();
    if crate::core::profile_name() == profile {
        return me;
    }
    let name = me.file_name().map(|s| s.to_owned()).unwrap_or_default();
    match me.parent().and_then(|d| d.parent()) {
        Some(target) => target.join(profile).join(name),
        None => me,
    }
}

struct Slot {
    child: Child,
    from: u64,
    to: u64,
    cur: String,
    out: String,
    last_marker: String,
    last_change: Instant,
    cpu_at_change: f64,
    serial: usize,
    /// indices of this range that were abandoned as outside the proviso (the range is re-run without them)
    skip: Vec<u64>,
}

fn spawn_shard(plan: &RunPlan, work: &str, serial: usize, from: u64, to: u64) -> Slot {
    spawn_shard_skipping(plan, work, serial, from, to, Vec::new())
}

fn spawn_shard_skipping(plan: &RunPlan, work: &str, serial: usize, from: u64, to: u64, skip: Vec<u64>) -> Slot {
    let cur = format!("{}/shard-{}.cur", work, serial);
    let out = format!("{}/shard-{}.out", work, serial);
    let _ = std::fs::remove_file(&out);
    // an address-space limit, so that a runaway allocation aborts one shard instead of the machine
    let mut cmd = Command::new("/bin/sh");
    cmd.arg("-c").arg("ulimit -v 12000000; exec \"$0\" \"$@\"").arg(exe_for(&plan.profile));
    cmd.arg("shard")
        .arg("--engine").arg(plan.info.name)
        .arg("--tier").arg(plan.tier.name())
        .arg("--seed").arg(plan.base_seed.to_string())
        .arg("--from").arg(from.to_string())
        .arg("--to").arg(to.to_string())
        .arg("--cur").arg(&cur)
        .arg("--out").arg(&out)
        .arg("--replay-dir").arg(format!("{}/replays", plan.verif_dir))
        .arg("--findings").arg(format!("{}/known_findings.txt", plan.verif_dir));
    if let Some(m) = plan.max_secs {
        cmd.arg("--max-secs").arg(format!("{}", m));
    }
    if !skip.is_empty() {
        cmd.arg("--skip").arg(skip.iter().map(|x| x.to_string()).collect::<Vec<_>>().join(","));
    }
    if plan.per_run_log {
        cmd.arg("--per-run-log").arg(format!("{}/shard-{}.runs", work, serial));
    }
    cmd.stdin(Stdio::null()).stdout(Stdio::null()).stderr(Stdio::null());
    let child = cmd.spawn().expect("spawn shard");
    Slot { child, from, to, cur, out, last_marker: String::new(), last_change: Instant::now(), cpu_at_change: 0.0, serial, skip }
}

fn read_marker(path: &str) -> String {
    let text = std::fs::read_to_string(path).unwrap_or_default();
    text.lines().next().unwrap_or("").to_string()
}

fn hexset(j: Option<&Json>, into: &mut HashSet<u64>) {
    if let Some(Json::Arr(a)) = j {
        for x in a {
            if let Some(s) = x.str() {
                if let Ok(v) = u64::from_str_radix(s, 16) {
                    into.insert(v);
                }
            }
        }
    }
}

/// CPU seconds (user + system) a child process has used so far, from /proc. Timeouts are counted
/// in the child's own CPU time, so that a loaded machine (many checks at once) does not turn a slow
/// case into a "hang"; a generous wall-clock cap catches a child that is blocked without using CPU.
fn cpu_secs(pid: u32) -> Option<f64> {
    let s = std::fs::read_to_string(format!("/proc/{}/stat", pid)).ok()?;
    // fields after the command name (which may contain spaces): ... utime(14) stime(15)
    let rest = &s[s.rfind(')')? + 1..];
    let f: Vec<&str> = rest.split_whitespace().collect();
    let utime: f64 = f.get(11)?.parse().ok()?;
    let stime: f64 = f.get(12)?.parse().ok()?;
    Some((utime + stime) / 100.0)
}

/// has the child used up `allow` seconds of its own CPU time (or 20 times that in wall-clock)?
fn overdue(pid: u32, cpu_at_start: f64, started: Instant, allow: f64) -> bool {
    let wall = started.elapsed().as_secs_f64();
    match cpu_secs(pid) {
        Some(c) => (c - cpu_at_start > allow && wall > allow) || wall > 20.0 * allow,
        None => wall > allow,
    }
}

/// Outcome of running a replay file in a fresh process.
pub enum FreshReplay {
    Pass,
    Fails(Violation),
    Died(String),
    Hung,
    Error(String),
}

pub fn fresh_replay(path: &str, timeout: f64) -> FreshReplay {
    let mut child = match Command::new(exe())
        .arg("replay")
        .arg(path)
        .arg("--machine")
        .stdin(Stdio::null())
        .stdout(Stdio::piped())
        .stderr(Stdio::null())
        .spawn()
    {
        Ok(c) => c,
        Err(e) => return FreshReplay::Error(e.to_string()),
    };
    let t0 = Instant::now();
    // drain the child's stdout while it runs: a child that writes more than a pipe holds would
    // otherwise block for ever with nobody reading
    let reader = child.stdout.take().map(|mut so| {
        std::thread::spawn(move || {
            use std::io::Read;
            let mut out = Vec::new();
            let _ = so.read_to_end(&mut out);
            String::from_utf8_lossy(&out).into_owned()
        })
    });
    let mut reader = reader;
    loop {
        match child.try_wait() {
            Ok(Some(status)) => {
                let out = reader.take().and_then(|h| h.join().ok()).unwrap_or_default();
                return match status.code() {
                    Some(0) => FreshReplay::Pass,
                    Some(1) => {
                        for line in out.lines() {
                            if let Some(rest) = line.find("REPLAY-VIOLATION ").map(|i| &line[i + "REPLAY-VIOLATION ".len()..]) {
                                if let Ok(j) = Json::parse(rest) {
                                    if let Ok(v) = Violation::from_json(&j) {
                                        return FreshReplay::Fails(v);
                                    }
                                }
                            }
                        }
                        FreshReplay::Error("exit 1 without REPLAY-VIOLATION line".into())
                    }
                    Some(2) => FreshReplay::Error(out),
                    Some(c) => FreshReplay::Died(format!("exit code {}", c)),
                    None => {
                        #[cfg(unix)]
                        {
                            use std::os::unix::process::ExitStatusExt;
                            FreshReplay::Died(format!("signal {}", status.signal().unwrap_or(0)))
                        }
                        #[cfg(not(unix))]
                        FreshReplay::Died("killed".into())
                    }
                };
            }
            Ok(None) => {
                if overdue(child.id(), 0.0, t0, timeout) {
                    let _ = child.kill();
                    let _ = child.wait();
                    return FreshReplay::Hung;
                }
                std::thread::sleep(Duration::from_millis(5));
            }
            Err(e) => return FreshReplay::Error(e.to_string()),
        }
    }
}

fn died_violation(kind: &FreshReplay) -> Option<Violation> {
    match kind {
        FreshReplay::Died(how) => {
            Some(Violation::new("abort", how.clone(), format!("the process died ({}) while executing the case", how)))
        }
        FreshReplay::Hung => Some(Violation::new("hang", "no-return", "the case did not return within the harness timeout")),
        _ => None,
    }
}

/// Handle a shard that died or hung: recover the in-flight case, confirm it in a fresh process,
/// minimise it by sub-process replays, and return the confirmed violation.
fn handle_dead_shard(plan: &RunPlan, slot: &Slot, how: &str, rep: &mut EngineReport) -> Option<u64> {
    if how == "hung" && rep.violations.iter().any(|(v, _)| v.oracle == "hang") {
        // a hang has been established, minimised and reported already; the other shards run the
        // same code and would each cost minutes to tell the same story
        *rep.counters.entry("further_hung_shards_not_examined".to_string()).or_insert(0) += 1;
        return None;
    }
    let text = std::fs::read_to_string(&slot.cur).unwrap_or_default();
    let mut lines = text.lines();
    let marker = lines.next().unwrap_or("");
    let mj = Json::parse(marker).unwrap_or(Json::Null);
    let index = mj.get("index").and_then(|x| x.int()).map(|x| x as u64);
    let seed = mj.get("seed").and_then(|x| x.int()).map(|x| x as u64);
    let rest: String = lines.collect::<Vec<_>>().join("\n");
    let (index, seed) = match (index, seed) {
        (Some(i), Some(s)) => (i, s),
        _ => {
            rep.harness_errors.push(format!("shard {} {} before its first run (marker {:?})", slot.serial, how, marker));
            return None;
        }
    };
    let dir = format!("{}/replays", plan.verif_dir);
    std::fs::create_dir_all(&dir).ok();
    let path = format!("{}/{}-{}-{}-crash.json", dir, plan.info.prop, plan.info.name, seed);
    if rest.trim().is_empty() {
        // died while generating: the replay is "regenerate this seed"
        let j = crate::jobj! {"format" => "xehsim-replay-1", "engine" => plan.info.name, "property" => plan.info.prop,
            "seed" => seed, "regenerate" => true, "tier" => plan.tier.name(), "note" => format!("shard {} while generating", how)};
        std::fs::write(&path, j.to_pretty()).ok();
    } else {
        std::fs::write(&path, &rest).ok();
    }
    let fr = fresh_replay(&path, plan.hang_secs);
    match died_violation(&fr) {
        Some(v) => {
            // minimise through sub-process replays (bounded)
            let _ = Command::new(exe())
                .arg("minimise-crash")
                .arg(&path)
                .arg("--timeout")
                .arg(format!("{}", plan.hang_secs))
                .stdin(Stdio::null())
                .stdout(Stdio::null())
                .stderr(Stdio::null())
                .status();
            let fr2 = fresh_replay(&path, plan.hang_secs);
            let v = died_violation(&fr2).unwrap_or(v);
            let findings = load_findings(&format!("{}/known_findings.txt", plan.verif_dir));
            if let Some(k) = crate::core::matches_known(&findings, plan.info.prop, &v) {
                *rep.known_hits.entry(k).or_insert(0) += 1;
            } else {
                rep.violations.push((v, path));
            }
        }
        None => match fr {
            FreshReplay::Fails(v) => {
                // the shard died but the replay reports an ordinary violation: still a violation
                rep.violations.push((v, path));
            }
            FreshReplay::Pass => rep.harness_errors.push(format!(
                "shard {} {} at seed {} but the recovered case passes in a fresh process ({})",
                slot.serial, how, seed, path
            )),
            FreshReplay::Error(e) => rep.harness_errors.push(format!("replay of {} failed: {}", path, e)),
            _ => {}
        },
    }
    Some(index + 1)
}

pub fn run_engine(plan: &RunPlan) -> EngineReport {
    let t0 = Instant::now();
    let work = format!("{}/work/{}-{}-{}-{}", plan.verif_dir, plan.info.name, plan.profile, plan.tier.name(), std::process::id());
    std::fs::create_dir_all(&work).expect("work dir");
    let mut rep = EngineReport::default();
    let jobs = plan.jobs.max(1).min(plan.runs.max(1) as usize);
    let per = (plan.runs + jobs as u64 - 1) / jobs as u64;
    let mut slots: Vec<Slot> = Vec::new();
    let mut serial = 0;
    for k in 0..jobs as u64 {
        let from = k * per;
        let to = ((k + 1) * per).min(plan.runs);
        if from >= to {
            continue;
        }
        slots.push(spawn_shard(plan, &work, serial, from, to));
        serial += 1;
    }
    let findings = load_findings(&format!("{}/known_findings.txt", plan.verif_dir));
    let mut unconfirmed: Vec<(Violation, String)> = Vec::new();
    while !slots.is_empty() {
        std::thread::sleep(Duration::from_millis(20));
        let mut k = 0;
        while k < slots.len() {
            let status = slots[k].child.try_wait().ok().flatten();
            if let Some(st) = status {
                let slot = slots.remove(k);
                let out_text = std::fs::read_to_string(&slot.out).unwrap_or_default();
                let ok = st.success() && !out_text.is_empty();
                if ok {
                    match Json::parse(&out_text) {
                        Ok(j) => merge(&mut rep, &j, &mut unconfirmed),
                        Err(e) => rep.harness_errors.push(format!("shard {} output unreadable: {}", slot.serial, e)),
                    }
                    if plan.per_run_log {
                        rep.per_run_logs.push(format!("{}/shard-{}.runs", work, slot.serial));
                    }
                } else {
                    let how = format!("died ({:?})", st);
                    if let (Some(probe), Some(index)) = (outside_proviso(plan, st.code(), &slot.cur), marker_index(&slot.cur)) {
                        // not a violation. A dead shard's results are lost with it, so its whole range
                        // is run again without the abandoned case (deterministic, nothing is dropped).
                        *rep.counters.entry(probe.to_string()).or_insert(0) += 1;
                        let mut skip = slot.skip.clone();
                        skip.push(index);
                        if skip.len() <= 64 {
                            slots.push(spawn_shard_skipping(plan, &work, serial, slot.from, slot.to, skip));
                            serial += 1;
                        } else {
                            rep.harness_errors.push(format!("shard {}: more than 64 cases stopped by the memory guard in one range", slot.serial));
                        }
                    } else if let Some(next) = handle_dead_shard(plan, &slot, &how, &mut rep) {
                        // one hang is enough: each further one costs minutes to establish
                        if next < slot.to && rep.violations.len() < 4 && !rep.violations.iter().any(|(v, _)| v.oracle == "hang") {
                            slots.push(spawn_shard(plan, &work, serial, next, slot.to));
                            serial += 1;
                        }
                    }
                    let _ = slot.from;
                }
                continue;
            }
            // hang detection: the in-flight marker must keep changing
            let m = read_marker(&slots[k].cur);
            if m != slots[k].last_marker {
                slots[k].last_marker = m;
                slots[k].last_change = Instant::now();
                slots[k].cpu_at_change = cpu_secs(slots[k].child.id()).unwrap_or(0.0);
            } else if overdue(
                slots[k].child.id(),
                slots[k].cpu_at_change,
                slots[k].last_change,
                if slots[k].last_marker.contains("\"done\":true") {
                    // all cases ran; the shard is writing its report (tens of millions of hashes)
                    plan.hang_secs.max(1200.0)
                } else {
                    plan.hang_secs
                },
            ) {
                let mut slot = slots.remove(k);
                let _ = slot.child.kill();
                let _ = slot.child.wait();
                if let Some(next) = handle_dead_shard(plan, &slot, "hung", &mut rep) {
                    if next < slot.to && rep.violations.len() < 4 && !rep.violations.iter().any(|(v, _)| v.oracle == "hang") {
                        slots.push(spawn_shard(plan, &work, serial, next, slot.to));
                        serial += 1;
                    }
                }
                continue;
            }
            k += 1;
        }
    }
    // confirm every reported violation by replaying its file in a fresh process
    let mut seen: Vec<Violation> = Vec::new();
    for (v, path) in unconfirmed {
        if seen.iter().any(|s| s.same_class(&v)) {
            let _ = std::fs::remove_file(&path);
            continue;
        }
        if path.is_empty() {
            rep.harness_errors.push(format!("violation without replay file: {} {} {}", v.oracle, v.sig, v.detail));
            continue;
        }
        match fresh_replay(&path, plan.hang_secs.max(30.0)) {
            FreshReplay::Fails(v2) if v2.same_class(&v) => {
                if let Some(k) = crate::core::matches_known(&findings, plan.info.prop, &v2) {
                    *rep.known_hits.entry(k).or_insert(0) += 1;
                } else {
                    seen.push(v.clone());
                    rep.violations.push((v2, path));
                }
            }
            FreshReplay::Fails(v2) => rep.harness_errors.push(format!(
                "replay of {} fails differently: expected {}/{} got {}/{}",
                path, v.oracle, v.sig, v2.oracle, v2.sig
            )),
            FreshReplay::Pass => rep.harness_errors.push(format!("violation {}/{} does not replay from {}", v.oracle, v.sig, path)),
            FreshReplay::Died(h) => rep.harness_errors.push(format!("replay of {} died: {}", path, h)),
            FreshReplay::Hung => rep.harness_errors.push(format!("replay of {} hung", path)),
            FreshReplay::Error(e) => rep.harness_errors.push(format!("replay of {} errored: {}", path, e)),
        }
    }
    if !plan.per_run_log {
        let _ = std::fs::remove_dir_all(&work);
    }
    rep.wall_s = t0.elapsed().as_secs_f64();
    rep
}

fn merge(rep: &mut EngineReport, j: &Json, unconfirmed: &mut Vec<(Violation, String)>) {
    rep.runs += j.get("runs").and_then(|x| x.int()).unwrap_or(0) as u64;
    rep.insns += j.get("insns").and_then(|x| x.int()).unwrap_or(0) as u64;
    rep.events += j.get("events").and_then(|x| x.int()).unwrap_or(0) as u64;
    if let Some(h) = j.get("batch_hash").and_then(|x| x.str()) {
        rep.batch_hash = rep.batch_hash.wrapping_add(u64::from_str_radix(h, 16).unwrap_or(0));
    }
    if let Some(Json::Obj(o)) = j.get("counters") {
        for (k, v) in o {
            *rep.counters.entry(k.clone()).or_insert(0) += v.int().unwrap_or(0) as u64;
        }
    }
    hexset(j.get("scheds_nontrivial"), &mut rep.scheds_nontrivial);
    hexset(j.get("scheds_all"), &mut rep.scheds_all);
    hexset(j.get("states"), &mut rep.states);
    if j.get("truncated").and_then(|x| x.boolean()).unwrap_or(false) {
        rep.truncated = true;
    }
    if let Some(Json::Arr(a)) = j.get("samples") {
        // shards finish in any order: keep the samples with the smallest seeds so that the
        // evidence file is the same from run to run
        for s in a {
            rep.samples.push(s.clone());
        }
        rep.samples.sort_by_key(|s| s.get("seed").and_then(|x| x.int()).unwrap_or(0));
        rep.samples.truncate(4);
    }
    if let Some(Json::Obj(o)) = j.get("known_hits") {
        for (k, v) in o {
            if let Ok(i) = k.parse::<usize>() {
                *rep.known_hits.entry(i).or_insert(0) += v.int().unwrap_or(0) as u64;
            }
        }
    }
    if let Some(Json::Arr(a)) = j.get("violations") {
        for v in a {
            if let Some(vj) = v.get("violation") {
                if let Ok(viol) = Violation::from_json(vj) {
                    let path = v.get("replay").and_then(|x| x.str()).unwrap_or("").to_string();
                    if v.get("generation").is_some() {
                        rep.harness_errors.push(format!(
                            "panic while generating seed {}: {}",
                            v.get("seed").and_then(|x| x.int()).unwrap_or(0),
                            viol.detail
                        ));
                    } else {
                        unconfirmed.push((viol, path));
                    }
                }
            }
        }
    }
}

/// Replay the committed witnesses of known findings for a property; returns the lines to print.
pub fn replay_known(verif_dir: &str, prop: &str, findings: &[Finding]) -> (Vec<String>, Vec<String>, Vec<(Violation, String)>) {
    let mut lines = Vec::new();
    let mut notes = Vec::new();
    let mut viol = Vec::new();
    for f in findings.iter().filter(|f| f.status == "known" && f.property == prop) {
        if f.witness.is_empty() {
            lines.push(format!("KNOWN-FINDING: property={} {}", prop, f.what));
            continue;
        }
        let path = format!("{}/{}", verif_dir, f.witness);
        match fresh_replay(&path, 60.0) {
            FreshReplay::Fails(v) if v.oracle == f.oracle && v.sig == f.sig => {
                lines.push(format!("KNOWN-FINDING: property={} {} (witness {})", prop, f.what, f.witness));
            }
            FreshReplay::Died(h) if f.oracle == "abort" && f.sig == h => {
                lines.push(format!("KNOWN-FINDING: property={} {} (witness {})", prop, f.what, f.witness));
            }
            FreshReplay::Hung if f.oracle == "hang" => {
                lines.push(format!("KNOWN-FINDING: property={} {} (witness {})", prop, f.what, f.witness));
            }
            FreshReplay::Pass => notes.push(format!("note: known finding no longer reproduces: {} ({})", f.what, f.witness)),
            FreshReplay::Fails(v) => {
                // a different violation than the one listed: not suppressed
                notes.push(format!("note: witness {} now fails differently ({}/{})", f.witness, v.oracle, v.sig));
                viol.push((v, path.clone()));
            }
            FreshReplay::Died(h) => notes.push(format!("note: witness {} died: {}", f.witness, h)),
            FreshReplay::Hung => notes.push(format!("note: witness {} hung", f.witness)),
            FreshReplay::Error(e) => notes.push(format!("note: witness {} could not be replayed: {}", f.witness, e)),
        }
    }
    (lines, notes, viol)
}
