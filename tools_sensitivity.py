#!/usr/bin/env python3
"""Sensitivity catalogue: break a property on purpose, run the registered quick check, expect an alarm.

Not a registered check. It edits /repo's working tree in place (the checks rebuild from it), runs
`./check <id> quick` with evidence and replays redirected to a scratch VERIF_DIR copy, and restores the
tree with `git checkout` after every mutation (also on failure). Results go to sensitivity/RESULTS.md.

  python3 tools_sensitivity.py            all mutations
  python3 tools_sensitivity.py NAME...    only those
  python3 tools_sensitivity.py --tests    additionally run xeh's own test suite on every novel mutation

Two kinds of mutation:
  * every "fixed:" line of known_findings.txt: the repair commit reverse-applied (the defect returns);
    by construction the repository's test suite passes without the repair
  * hand-written ones below (regex edits), the kind of slip a maintainer could make
"""
import os, re, subprocess, sys, time, shutil

VERIF = os.path.dirname(os.path.abspath(__file__))
REPO = "/repo"

def sh(cmd, **kw):
    return subprocess.run(cmd, shell=True, capture_output=True, text=True, **kw)

# name -> (properties whose quick check must alarm, file, regex, replacement, what it breaks)
EDITS = {
 "rot-records-then-swaps": (["C15"], "src/state.rs",
    r"(self\.add_reverse_step\(ReverseStep::RotData\);\n)", r"\1                self.data_stack.swap(len - 1, len - 2);\n",
    "rot does something else when recording is on"),
 "swap-not-logged": (["C02"], "src/state.rs",
    r"self\.add_reverse_step\(ReverseStep::SwapData\);", "",
    "swap leaves no reverse-log entry"),
 "stack-limit-off-by-one": (["C14"], "src/state.rs",
    r"if self\.data_stack\.len\(\) >= limit \{", "if self.data_stack.len() > limit {",
    "the data stack may grow one past the stack limit"),
 "heap-limit-off-by-one": (["C14"], "src/state.rs",
    r"if self\.heap\.len\(\) >= limit \{", "if self.heap.len() > limit {",
    "the heap may grow one past the heap limit"),
 "insn-limit-off-by-one": (["C14"], "src/state.rs",
    r"if self\.insn_meter >= limit \{", "if self.insn_meter > limit {",
    "one instruction more than the limit is executed"),
 "rollback-keeps-flows": (["C10"], "src/state.rs",
    r"        self\.flow_stack\.truncate\(mark\.fs_len\);\n", "",
    "a rejected source leaves its open control structures behind"),
 "rollback-keeps-input": (["C10"], "src/state.rs",
    r"    fn build_rollback\(&mut self, mark: BuildMark\) \{\n        self\.input\.truncate\(mark\.input_len\);\n",
    "    fn build_rollback(&mut self, mark: BuildMark) {\n",
    "unread text of a rejected source stays on the input stack"),
 "seek-past-end": (["C06"], "src/bitstr_ext.rs",
    r"if s\.start\(\) <= pos && pos <= s\.end\(\) \{", "if s.start() <= pos {",
    "seek accepts a position past the end of the input"),
 "invert-skips-last-bit": (["C04"], "src/bitstr.rs",
    r"let r = s\.bits_range\(\);\n        let data = s\.data_mut\(\);", "let r = s.bits_range();\n        let r = r.start..r.end.saturating_sub(1).max(r.start);\n        let data = s.data_mut();",
    "invert leaves the last bit of the value as it was"),
 "eq-fast-path-one-sided": (["C04"], "src/bitstr.rs",
    r"\} else if self\.is_u8_slice\(\) && other\.is_u8_slice\(\) \{\n            self\.slice\(\) == other\.slice\(\)",
    "} else if self.is_u8_slice() && other.is_u8_slice() {\n            self.slice().map(|s| &s[..s.len().min(1)]) == other.slice().map(|s| &s[..s.len().min(1)])",
    "byte-aligned comparison looks at the first byte only"),
 "repl-trial-no-reset": (["C03"], "src/repl.rs",
    r"if let Some\(old_xs\) = self\.snapshots\.last\(\) \{\n            self\.xs = old_xs\.clone\(\);\n        \}",
    "if let Some(_old_xs) = self.snapshots.last() {\n        }",
    "typed text evaluated in trial mode is not undone"),
 "repl-rollback-keeps-live": (["C03"], "src/repl.rs",
    r"std::mem::swap\(&mut self\.xs, &mut old_xs\);", "let _ = &mut old_xs;",
    "/rollback pops the snapshot but keeps the live state"),
}

def fixed_commits():
    out = []
    for line in open(os.path.join(VERIF, "known_findings.txt")):
        m = re.match(r"fixed: property=(C\d+) ([0-9a-f]{7,}) (.*)", line)
        if m:
            out.append((m.group(1), m.group(2), m.group(3)[:110]))
    return out

def restore():
    sh(f"git -C {REPO} checkout -- . ")

def run_check(prop, scratch):
    env = dict(os.environ, VERIF_SEED=os.environ.get("VERIF_SEED", "1"), CARGO_NET_OFFLINE="true")
    # same script, same simulator sources, same target dir (so the rebuild is incremental), but
    # evidence / replays / work files go to a scratch VERIF_DIR
    t0 = time.time()
    r = sh(f"cd {VERIF} && XEHSIM_VERIF_DIR={scratch} ./check {prop} quick", env=env)
    dt = time.time() - t0
    viol = [l for l in r.stdout.splitlines() if l.startswith("VIOLATION")]
    detail = [l.strip() for l in r.stdout.splitlines() if l.strip().startswith("oracle:")]
    return r.returncode, viol, detail, dt, r.stdout[-600:]

def main():
    args = [a for a in sys.argv[1:] if not a.startswith("--")]
    with_tests = "--tests" in sys.argv
    if sh(f"git -C {REPO} status --porcelain").stdout.strip():
        print("refusing: /repo has uncommitted changes"); sys.exit(2)
    scratch = "/verif/work/sens-verif"
    shutil.rmtree(scratch, ignore_errors=True)
    os.makedirs(scratch)
    shutil.copy(os.path.join(VERIF, "known_findings.txt"), scratch)
    shutil.copytree(os.path.join(VERIF, "findings"), os.path.join(scratch, "findings"))
    rows = []
    jobs = []
    for prop, commit, what in fixed_commits():
        jobs.append((f"revert-{commit}", [prop], ("revert", commit), what))
    for name, (props, f, rx, rep, what) in EDITS.items():
        jobs.append((name, props, ("edit", f, rx, rep), what))
    for name, props, how, what in jobs:
        if args and name not in args:
            continue
        try:
            if how[0] == "revert":
                r = sh(f"git -C {REPO} show {how[1]} | git -C {REPO} apply -R")
                if r.returncode != 0:
                    rows.append((name, ",".join(props), "SKIPPED (does not reverse-apply: later commits touch the same lines)", what)); continue
            else:
                _, f, rx, rep = how
                p = os.path.join(REPO, f); s = open(p).read()
                s2, n = re.subn(rx, rep, s, count=1)
                if n != 1:
                    rows.append((name, ",".join(props), "SKIPPED (pattern not found)", what)); continue
                open(p, "w").write(s2)
            tests = ""
            if with_tests and how[0] == "edit":
                t = sh(f"cd {REPO} && cargo test --workspace --no-fail-fast --offline 2>&1 | grep -E '^test result' ")
                failed = sum(int(x) for x in re.findall(r"(\d+) failed", t.stdout))
                tests = f"; xeh tests: {'pass' if failed == 0 else str(failed) + ' FAIL'}"
            for prop in props:
                code, viol, detail, dt, tail = run_check(prop, scratch)
                if code == 1 and viol:
                    res = f"caught in {dt:.0f}s ({len(viol)} class(es); {detail[0] if detail else ''})"
                elif code == 0:
                    res = f"MISSED ({dt:.0f}s)"
                else:
                    res = f"exit {code}: {tail[-200:]!r}"
                rows.append((name, prop, res + tests, what))
                print(name, prop, res + tests, flush=True)
        finally:
            restore()
    shutil.rmtree(scratch, ignore_errors=True)
    with open(os.path.join(VERIF, "sensitivity", "RESULTS.md"), "w") as f:
        f.write("# Sensitivity runs (tools_sensitivity.py): mutation of /repo -> registered quick check, VERIF_SEED=%s\n\n" % os.environ.get("VERIF_SEED", "1"))
        f.write("| mutation | property | result | what the mutation breaks |\n|---|---|---|---|\n")
        for r in rows:
            f.write("| %s | %s | %s | %s |\n" % tuple(x.replace("|", "\\|") for x in r))
    print("written sensitivity/RESULTS.md")

if __name__ == "__main__":
    main()
