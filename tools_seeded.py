#!/usr/bin/env python3
"""Seeded changes: realistic breakages of anykey111/xeh written by independent sub-agents (kept under
seeded/<id>/: patch.diff, demonstration, meta.json). Not a registered check.

  python3 tools_seeded.py verify <dir>...     confirm a candidate in a scratch worktree of /repo under /tmp:
                                              patch applies, xeh builds, the 144 tests pass with it, the
                                              demonstration fails with it and passes without it
  python3 tools_seeded.py run [--tier T] [--all-props] [<id>...]
                                              apply each seeded/<id>/patch.diff to /repo (git apply), run the
                                              registered check of the property it breaks (quick by default),
                                              undo it (git checkout), write seeded/RESULTS.md

`run` edits /repo's working tree in place, exactly as the brief describes, and refuses to start when /repo
is dirty. Evidence and replays of these runs go to a scratch VERIF_DIR, never to /verif/evidence.
"""
import json, os, re, shutil, subprocess, sys, time

VERIF = os.path.dirname(os.path.abspath(__file__))
REPO = "/repo"
CLAIMED = ["C02", "C03", "C04", "C06", "C08", "C10", "C14", "C15"]

def sh(cmd, **kw):
    return subprocess.run(cmd, shell=True, capture_output=True, text=True, **kw)

def verify(d):
    d = os.path.abspath(d)
    name = os.path.basename(d.rstrip("/"))
    wt = f"/tmp/seedverify-{name}"
    sh(f"git -C {REPO} worktree remove --force {wt}")
    r = sh(f"git -C {REPO} worktree add --detach {wt} HEAD")
    if r.returncode != 0:
        return {"ok": False, "why": "worktree: " + r.stderr[-300:]}
    res = {"ok": False}
    try:
        demo = [f for f in os.listdir(d) if f.endswith(".rs")]
        if not demo:
            res["why"] = "no demonstration .rs"; return res
        os.makedirs(f"{wt}/tests", exist_ok=True)
        for f in demo:
            shutil.copy(os.path.join(d, f), f"{wt}/tests/{f}")
        feat = ""
        if any("verif_dump" in open(os.path.join(d, f)).read() or "verif_hooks" in open(os.path.join(d, f)).read() for f in demo):
            feat = "--features verif_hooks"
        env = dict(os.environ, CARGO_NET_OFFLINE="true")
        tname = demo[0][:-3]
        # without the change: demo passes
        r0 = sh(f"cd {wt} && cargo test --offline {feat} --test {tname} 2>&1 | tail -30", env=env)
        res["demo_without"] = "pass" if re.search(r"test result: ok", r0.stdout) else "FAIL"
        a = sh(f"git -C {wt} apply {d}/patch.diff")
        if a.returncode != 0:
            res["why"] = "patch does not apply: " + a.stderr[-300:]; return res
        r1 = sh(f"cd {wt} && cargo test --offline {feat} --test {tname} 2>&1 | tail -40", env=env)
        res["demo_with"] = "fail" if re.search(r"test result: FAILED", r1.stdout) else ("PASSES" if "test result: ok" in r1.stdout else "BUILD-ERROR")
        res["demo_with_tail"] = r1.stdout[-700:]
        os.remove(f"{wt}/tests/{demo[0]}")
        for f in demo[1:]:
            os.remove(f"{wt}/tests/{f}")
        t = sh(f"cd {wt} && cargo test --offline --lib 2>&1 | grep -E '^test result|FAILED|failed' | head", env=env)
        m = re.search(r"test result: (\w+)\. (\d+) passed; (\d+) failed", t.stdout)
        res["suite_with"] = f"{m.group(2)} passed, {m.group(3)} failed" if m else t.stdout[-300:]
        b1 = sh(f"cd {wt} && cargo build --offline --release --features verif_hooks 2>&1 | tail -3", env=env)
        res["release_hooks_build"] = "ok" if b1.returncode == 0 and "error" not in b1.stdout else b1.stdout[-300:]
        res["ok"] = (res["demo_without"] == "pass" and res["demo_with"] == "fail" and m is not None
                     and m.group(2) == "144" and m.group(3) == "0" and res["release_hooks_build"] == "ok")
        return res
    finally:
        sh(f"git -C {REPO} worktree remove --force {wt}")
        shutil.rmtree(wt, ignore_errors=True)

def run_check(prop, tier, scratch):
    env = dict(os.environ, VERIF_SEED=os.environ.get("VERIF_SEED", "1"), CARGO_NET_OFFLINE="true")
    t0 = time.time()
    r = sh(f"cd {VERIF} && XEHSIM_VERIF_DIR={scratch} ./check {prop} {tier}", env=env)
    dt = time.time() - t0
    viol = [l for l in r.stdout.splitlines() if l.startswith("VIOLATION")]
    detail = [l.strip() for l in r.stdout.splitlines() if l.strip().startswith("oracle:")]
    return r.returncode, viol, detail, dt, r.stdout[-600:]

def run(ids, tier, all_props):
    if sh(f"git -C {REPO} status --porcelain").stdout.strip():
        print("refusing: /repo has uncommitted changes"); sys.exit(2)
    scratch = "/verif/work/seeded-verif"
    shutil.rmtree(scratch, ignore_errors=True)
    os.makedirs(scratch)
    shutil.copy(os.path.join(VERIF, "known_findings.txt"), scratch)
    shutil.copytree(os.path.join(VERIF, "findings"), os.path.join(scratch, "findings"))
    sd = os.path.join(VERIF, "seeded")
    names = sorted(n for n in os.listdir(sd) if os.path.isdir(os.path.join(sd, n)))
    results_path = os.path.join(sd, "results.json")
    results = json.load(open(results_path)) if os.path.exists(results_path) else {}
    for n in names:
        if ids and n not in ids:
            continue
        meta = json.load(open(os.path.join(sd, n, "meta.json")))
        props = CLAIMED if all_props else meta["expected_to_be_caught_by"]
        a = sh(f"git -C {REPO} apply {sd}/{n}/patch.diff")
        if a.returncode != 0:
            print(n, "patch does not apply", a.stderr); continue
        try:
            for prop in props:
                code, viol, detail, dt, tail = run_check(prop, tier, scratch)
                if code == 1 and viol:
                    res = f"caught in {dt:.0f}s ({len(viol)} class(es); {detail[0] if detail else ''})"
                elif code == 0:
                    res = f"MISSED ({dt:.0f}s)"
                else:
                    res = f"exit {code}: {tail[-200:]!r}"
                results.setdefault(n, {})[f"{prop}/{tier}"] = res
                print(n, prop, tier, res, flush=True)
        finally:
            sh(f"git -C {REPO} checkout -- .")
    shutil.rmtree(scratch, ignore_errors=True)
    json.dump(results, open(results_path, "w"), indent=1, sort_keys=True)
    with open(os.path.join(sd, "RESULTS.md"), "w") as f:
        f.write("# Seeded changes -> registered checks (tools_seeded.py run; VERIF_SEED=1)\n\n")
        f.write("| seeded change | breaks | needs | check/tier | result |\n|---|---|---|---|---|\n")
        for n in names:
            meta = json.load(open(os.path.join(sd, n, "meta.json")))
            for k, v in sorted(results.get(n, {}).items()):
                f.write("| %s | %s | %s | %s | %s |\n" % (n, meta["property"], meta["needs"].replace("|", "\\|")[:160], k, v.replace("|", "\\|")))
    print("written seeded/RESULTS.md")

def run_benign(ids):
    """apply each benign/<id>/patch.diff (behaviour-preserving refactors written by sub-agents) to /repo,
    run EVERY registered quick check, expect no alarm; write benign/RESULTS.md"""
    if sh(f"git -C {REPO} status --porcelain").stdout.strip():
        print("refusing: /repo has uncommitted changes"); sys.exit(2)
    scratch = "/verif/work/benign-verif"
    shutil.rmtree(scratch, ignore_errors=True)
    os.makedirs(scratch)
    shutil.copy(os.path.join(VERIF, "known_findings.txt"), scratch)
    shutil.copytree(os.path.join(VERIF, "findings"), os.path.join(scratch, "findings"))
    bd = os.path.join(VERIF, "benign")
    names = sorted(n for n in os.listdir(bd) if os.path.isdir(os.path.join(bd, n)))
    rows = []
    for n in names:
        if ids and n not in ids:
            continue
        a = sh(f"git -C {REPO} apply {bd}/{n}/patch.diff")
        if a.returncode != 0:
            rows.append((n, "-", "patch does not apply (later repairs touched the same lines)")); print(rows[-1]); continue
        try:
            t = sh(f"cd {REPO} && cargo test --offline --lib 2>&1 | grep -E '^test result'", env=dict(os.environ, CARGO_NET_OFFLINE="true"))
            m = re.search(r"(\d+) passed; (\d+) failed", t.stdout)
            rows.append((n, "xeh tests", f"{m.group(1)} passed, {m.group(2)} failed" if m else t.stdout[-100:]))
            for prop in CLAIMED:
                code, viol, detail, dt, tail = run_check(prop, "quick", scratch)
                res = "quiet" if code == 0 else (f"ALARM ({detail[0] if detail else ''})" if code == 1 else f"exit {code}")
                rows.append((n, prop, f"{res} ({dt:.0f}s)"))
                print(rows[-1], flush=True)
        finally:
            sh(f"git -C {REPO} checkout -- .")
    shutil.rmtree(scratch, ignore_errors=True)
    with open(os.path.join(bd, "RESULTS.md"), "w") as f:
        f.write("# Behaviour-preserving changes -> every registered quick check (tools_seeded.py benign; VERIF_SEED=1)\n\n")
        f.write("Each patch is a refactoring written by a sub-agent told to preserve behaviour exactly (their differential\nchecks are described in the notes.md next to each patch). An alarm here would be a false alarm.\n\n")
        f.write("| change | check | result |\n|---|---|---|\n")
        for r in rows:
            f.write("| %s | %s | %s |\n" % r)
    print("written benign/RESULTS.md")

def do_import(name, prop, needs, what):
    """copy a sub-agent's deliverables from /tmp/seed/out/<name> into seeded/<name>, confirm them, write meta.json"""
    src = f"/tmp/seed/out/{name}"
    dst = os.path.join(VERIF, "seeded", name)
    os.makedirs(dst, exist_ok=True)
    for f in ("patch.diff", "seeded_demo.rs", "notes.md"):
        shutil.copy(os.path.join(src, f), os.path.join(dst, f))
    res = verify(dst)
    res.pop("demo_with_tail", None)
    meta = {
        "property": prop,
        "expected_to_be_caught_by": [prop],
        "what": what,
        "needs": needs,
        "author": "independent sub-agent given only the property record and a scratch worktree",
        "confirmed_by": "tools_seeded.py verify (scratch worktree of /repo HEAD under /tmp, removed afterwards): "
                        "cargo test --offline --test seeded_demo without the patch, with the patch, cargo test --offline --lib with the patch, "
                        "cargo build --release --features verif_hooks with the patch",
        "confirmation": res,
    }
    json.dump(meta, open(os.path.join(dst, "meta.json"), "w"), indent=1)
    print(name, json.dumps(res))
    if not res.get("ok"):
        print("NOT CONFIRMED - remove or repair seeded/" + name)

if __name__ == "__main__":
    if len(sys.argv) < 2:
        print(__doc__); sys.exit(2)
    if sys.argv[1] == "verify":
        for d in sys.argv[2:]:
            print(d, json.dumps(verify(d), indent=1))
    elif sys.argv[1] == "benign":
        run_benign(sys.argv[2:])
    elif sys.argv[1] == "import":
        do_import(sys.argv[2], sys.argv[3], sys.argv[4], sys.argv[5])
    elif sys.argv[1] == "run":
        args = sys.argv[2:]
        tier = "quick"
        if "--tier" in args:
            i = args.index("--tier"); tier = args[i + 1]; del args[i:i + 2]
        all_props = "--all-props" in args
        args = [a for a in args if not a.startswith("--")]
        run(args, tier, all_props)
