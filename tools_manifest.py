#!/usr/bin/env python3
"""Regenerates MANIFEST.json from one table, so that it is always schema-valid."""
import json, subprocess, sys

HOOK_COMMITS = subprocess.run(["git","-C","/repo","log","--format=%h %s","--grep=^verif hook"],capture_output=True,text=True).stdout.strip().splitlines()

NA = {
 "C01": "pure function of the program text: needs an independent structural semantics (translation validation / differential testing); no party, instant, fault or schedule in the statement",
 "C05": "pure function of (value, width, byte order, bit offset); no schedule, clock or fault to simulate",
 "C07": "pure round-trip law over field lists (append associativity); nothing fault- or schedule-dependent",
 "C09": "pure functions of one or two operands",
 "C11": "program-equivalence law over program texts (metamorphic); its eval = compile+run clause is decided under C15 and failures inside a block under C10",
 "C12": "algebraic laws of persistent containers under one deterministic caller; the aliasing clause is exercised (not claimed) by C03's snapshot-immutability oracle",
 "C13": "metamorphic relation between tagged and untagged arguments of pure words",
 "C16": "the lexer is a pure function of the text",
 "C17": "the reported location is a deterministic function of the submitted texts; no party, instant or fault",
 "C18": "pure codec round trips over byte strings",
}

# property -> (engine, level quick, technique, level text, level note, design ref)
CHECKS = {
 "C15": ("drive", "exploration",
   "deterministic simulation: seeded generation of (history, program) cases; six replicas driven under every host slicing x recording; pairwise state equality oracle; delta-debugged replay files",
   "Seeded exploration of schedule independence: each case runs the same program on six booted replicas under {eval, compile+run, compile+single-step} x {recording off,on} with the same instruction limit (and, in a quarter of the cases, the same stack / heap limit) on all six, and compares result, whole data stack, every variable and heap cell, and captured output pairwise. A program interrupted by the instruction limit is given a fresh budget and driven on in the same manner on every replica (slicing by the limit), then compared. The accepted history may contain lines that failed without leaving anything of themselves behind. A clean batch is evidence over the sampled programs, not a proof.",
   "Trusted: the simulator harness, xeh's verif_hooks dump (read-only), cargo. The program generator emits 231 of the 239 dictionary words (not: random, random-bits, read-all, write-all, exec-piped, include, require, see) plus user-defined immediate words; programs outside that grammar are not sampled. Leftover frames of a line that failed inside a loop or call, and what a user immediate sees of the stack under compile, are listed in DESIGN §8.8 as seen, not claimed.",
   "DESIGN.md §5 C15"),
}

CHECKS["C02"] = ("reverse", "exploration",
   "deterministic simulation: the simulator owns the instruction pointer (next/rnext) and walks one execution in seeded order with forward bursts, rewinds, replays, mid-walk compiles and armed stack/instruction-limit faults inside single steps; oracle = recorded forward history of the same execution",
   "Seeded exploration of rewind/replay interleavings: every position of a generated program's execution is recorded the first time it is reached (ip, whole data stack, frames with locals, loop stack, special stack, every heap cell, step result); every later visit by rnext or replay must show exactly that record. Limit trips armed inside a step check that partial effects of an interrupted instruction are undone exactly. One case in 50 000 is a long haul: an execution of about half a million steps (more than a million reverse-log entries) driven to its end, all the way back and forward again, compared at every 997th position. Evidence over sampled programs and walks, not a proof.",
   "Trusted: harness, verif_hooks dump. Programs come from the grammar in sim/src/gen.rs (<= 600 steps); a step that fails is the end of the forward path (the statement does not define stepping past a failure).",
   "DESIGN.md §5 C02")

CHECKS["C14"] = ("limits", "exploration",
   "deterministic simulation with fault injection: instruction / stack / heap limits are the injected faults, armed at values on, just below and just above what an unlimited stepped twin of the same program needed, before the submission or between two steps; invariants after every step, twin-equality when not exceeded, recovery probes after every trip. Thorough tier enumerates every limit value 0..need+1 per sampled program",
   "Quick: seeded sampling of (program, drive style, limit kind, limit value, arming instant). Thorough: for half of the sampled programs every value of all three limits from 0 to need+1 is enumerated (fault_enumeration over trip points; the programs themselves are sampled). Checks: meter <= N after every step; through hook H4 (a watch inside fetch_and_run, independent of the interpreter's meter) executed instructions <= N and the stack / heap high-water marks <= S / H at every instruction of every call, including build-time instructions of meta blocks and immediates; the bounds hold across follow-up evaluations under the same limits (accepted and rejected sources) and across reverse steps taken under an armed limit; an exceeded limit makes the call fail, a limit that is not exceeded changes neither result nor state, and after any trip self-contained probes succeed within 40 instructions once limits are cleared.",
   "Trusted: harness, verif_hooks accessors (data/heap length, meter). Stack need is bracketed (push peak .. max length + 2) because the watch samples between instructions. Reverse steps are never taken back beyond the instant the limit was set (restoring an older, larger stack is not growth). Resumption of an interrupted program is measured, not required.",
   "DESIGN.md §5 C14")

CHECKS["C10"] = ("reject", "exploration",
   "deterministic simulation with fault injection (crash consistency of the build pipeline): the build is killed at a chosen token by one of ~57 failing-token kinds, including instruction/stack limits armed to trip inside a meta block; victim/control twins re-executed from boot; state-shape oracle right after the rejection and twin equality after every follow-up probe; thorough tier enumerates every cut position x every failing kind per sampled base program",
   "Quick: seeded sampling of (history, base program, cut position, failing kind, trailing text, submission styles eval / compile+run, probes). Thorough: for half of the sampled base programs every token position x every failing kind is enumerated, in a strided order and up to a deterministic work budget of 8 million VM instructions per base program (bases that exceed it get a spanning sample of pairs instead of all of them). Checks: right after the rejection the data stack, mode, nesting, pending flows and pending inputs are what they were; every later probe returns the same result and leaves the same visible stack, variables and output as on a control that never saw the rejected source; a source that fails at run time is not re-executed by later lines (literal probes push exactly their literal, print nothing): one case in four is such a line, run under the ordinary budget, under a budget ending exactly on the failing instruction, or with a stack / heap limit tripping in the middle. Further fault kinds: the build dies inside or after an included / required virtual file (simulated file system, hook H2); the rejected source re-defines a constant / word / variable of the accepted history, or binds a late word at build time; the follow-up probes run under a tight heap limit on both twins; the rejected source arrives while an accepted program is paused by the instruction limit and that program is continued afterwards.",
   "Trusted: harness, verif_hooks dump. Name-space discipline: the rejected source, the history and the probes use disjoint names, so whether completed definitions of a rejected source survive is not observed. Output printed by meta blocks that completed before the rejection is not counted against it. Effects of user-defined immediate words executed at build time are a listed known finding.",
   "DESIGN.md §5 C10")

CHECKS["C04"] = ("bitshare", "exploration",
   "deterministic simulation of handle lifetimes: seeded interleaving of create / clone / derive / drop events with append / insert / invert / detach / compare / export operations on real Bitstr handles; refinement against a Vec<bool> model after every action",
   "Seeded exploration of ownership schedules: the code mutates in place or copies depending on whether another handle to the same buffer is alive at that instant, so the scheduler's choice of when clones and drops happen selects the code path. After every action the operation's result must equal the model's and every live handle must still read back as its model (operands never modified); bit iteration, byte iteration, hex and byte export must agree with the model. All 64 (start mod 8, end mod 8) alignment classes are reached. No fault dimension: allocation failure aborts and is not injected.",
   "Trusted: harness and its Vec<bool> model. Arguments stay within length + small slack (overflowing positions are C06/C08's business). Codec values (from_int) are not asserted, only carried.",
   "DESIGN.md §5 C04")

CHECKS["C03"] = ("clones", "exploration",
   "deterministic simulation of a clone tree: up to six replicas share reference-counted storage; a seeded scheduler interleaves clone (Clone and c_api::xeh_snapshot) / drop / submit / single-instruction step / reverse-step / save / rollback / private-source actions; invariant after every event: every other replica and every saved snapshot renders unchanged; history check: replicas that reach the same script point agree on result, output and state",
   "Seeded exploration of who-acts-when over replicas that follow one script at their own pace, down to single VM instructions, with siblings dropped at arbitrary instants so that survivors flip onto the unique-owner paths. Snapshot immutability is checked after every action against a full rendering (machine state, contexts, flows, code and dictionary beyond boot, pending output) plus a probe of host objects; determinism of re-running is checked by comparing every replica that reaches a script point with the first one that got there. About one case in 30 000 is a long recording: a snapshot taken while the reverse log is live, then 1.5-2 million recorded instructions (5-8 million log entries) on both copies, with the length of the log compared as well.",
   "A second engine (repl) drives the real REPL run_line and trial-mode hinter through hook H3 on two sessions: typed text leaves no trace in the live state, a snapshot slot changes only when run_line replaces it, /rollback gives back the popped snapshot, and a line rejected at build time leaves the session like one that never saw it. Trusted: harness, verif_hooks renderings (values by content). Output printed twice after reverse steps is not compared (reverse stepping does not un-print; C02 excludes output). The d2 canvas (Cell::AnyRc) being shared between clones is a listed known finding, classified separately so that it suppresses nothing else. The words the property excludes are not generated.",
   "DESIGN.md §5 C03")

CHECKS["C06"] = ("cursor", "exploration",
   "deterministic simulation of the stream-reading surface with fault injection: inputs of arbitrary bit length and alignment (EOF at any bit), the word's result push made to fail by an armed stack limit after its cursor logic ran, reads inside a meta block, out-of-range / huge / negative / wrongly typed arguments; refinement against a stack-of-(bits, offset) model after every word; run in the release and the overflow-checked build",
   "Seeded exploration of word sequences over the parsing cursor with a model of the input stack. Ok => returned bits are exactly model bits [offset, offset+n) and the offset moved by n; Err => input, offset, suspended inputs and the stack below the word's arguments untouched; offset stays inside the input, remain == end - offset, close-bitstr restores the previous input and offset LIFO; exact in-range requests of a valid type must succeed; a panic is a violation. Both build profiles, because overflowing size arithmetic panics in one and mis-reads in the other.",
   "Trusted: harness and its model. Decoded numeric values are not asserted (C05's business), only how far the cursor moved. `find` is modelled on byte-aligned rests only (it refuses others by design).",
   "DESIGN.md §5 C06")

CHECKS["C08"] = ("chaos", "exploration",
   "deterministic simulation with fault injection over API call sequences: one long-lived interpreter is driven by seeded sequences of eval / compile / run / next / rnext / error formatting / value formatting / disassembly / set-input / limit setters / recording toggle / clone, inside a simulated environment (stdout sink that breaks after n bytes, virtual files that are missing / unreadable / not UTF-8, stub child process, PRNG entropy); oracle = every call returns (panics caught, aborts and hangs seen by the supervising process); both overflow-check configurations",
   "Seeded exploration of call sequences with limit trips and environment faults firing inside words, in the release and the overflow-checked build. Two thirds of this property is input-space robustness (every word x every argument class): that part is covered by sampling a word x 0..3 arguments from 57 value classes as the workload corpus and is labelled as input enumeration by sampling, not as simulation. Also in the corpus: whole generated programs, stores to the cursor / output variables followed by cursor words, enum with extreme values, sorts of long mixed-type vectors, files that include each other, reads of 121-128 bits at unaligned offsets, lines longer than 65535 columns, and themed cases (user immediates acting at build time in rejected sources, with reverse steps). Every failure is minimised and replays exactly, in the build it was found in.",
   "Trusted: harness, panic hook, supervisor. Proviso of the statement honoured: instruction and stack limits are always set; words whose argument is an allocation size (int!, uint!, random-bits, d2-resize) only get modest literal sizes; where a size operand nevertheless comes from elsewhere (stack leftovers re-read after an error, a doubling loop), the case-executing process has a memory guard: a single request of 4 GiB or more in a case that itself mentions a ten-digit integer or entropy, or a live footprint above 3 GiB, ends the case as outside the statement (counted as a probe, its shard range re-run without it); a giant request out of small arguments stays an abort violation. The terminal / line editor and the real file system are not exercised (stubs).",
   "DESIGN.md §5 C08")

# engines that decide a property in addition to the one named in CHECKS
EXTRA_ENGINES = {"repl": ["C03"]}

PENDING = {k: "check under construction in this session (claimed in DESIGN.md); listed here only until its engine lands" for k in []}

def main():
    checks = []
    for pid,(engine,level,technique,text,note,ref) in sorted(CHECKS.items()):
        checks.append({
            "property_id": pid,
            "quick_cmd": f"./check {pid} quick",
            "thorough_cmd": f"./check {pid} thorough",
            "evidence_file": f"/verif/evidence/{pid}.json",
            "replay_cmd_template": "./check replay {path}",
            "engine": engine,
            "level_claimed": {"category": level, "text": text, "design_ref": ref},
            "level_note": note,
            "technique": technique,
        })
    na = [{"property_id":k,"reason":v} for k,v in sorted({**NA, **{k:v for k,v in PENDING.items() if k not in CHECKS}}.items())]
    m = {
      "version": 1,
      "setup_cmd": "./check setup",
      "hooks": {
        "guard": "verif_hooks",
        "enable": "cargo feature: the simulator crate /verif/sim depends on xeh = { path = \"/repo\", features = [\"verif_hooks\"] }",
        "baseline_off_cmd": "cd /repo && cargo test --workspace --no-fail-fast --offline",
        "source_commits": HOOK_COMMITS,
        "add_only": True
      },
      "engines": [{"name": e, "path": f"/verif/sim/src/engines/{e}.rs", "serves_properties":sorted([p for p,c in CHECKS.items() if c[0]==e] + EXTRA_ENGINES.get(e, [])), "kind_free_text":"deterministic simulation engine (seeded scheduler + fault injection + oracle) inside the xehsim binary"} for e in sorted({c[0] for c in CHECKS.values()} | set(EXTRA_ENGINES))],
      "checks": checks,
      "not_applicable": na,
      "notes": "All checks are one binary (xehsim) built from /verif/sim against /repo's working tree. VERIF_SEED selects the batch (default 1); VERIF_JOBS the worker count (default: all cores). Exit 0 clean, 1 violation (VIOLATION line), 2 harness error. Known findings: /verif/known_findings.txt. The registered commands take no run-count options; a run whose budget is overridden on the command line (--runs/--scale/--max-secs) writes its evidence to /verif/evidence/adhoc/ and never to the registered evidence file."
    }
    json.dump(m, open("/verif/MANIFEST.json","w"), indent=1)
    print("MANIFEST.json written:", len(checks), "checks,", len(na), "not applicable")

if __name__ == "__main__":
    main()
